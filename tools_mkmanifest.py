import json
NA = {
 "C01": "acceptance of a text is a pure function of the text and the static country table; no schedule, clock, I/O or fault to simulate (needs input enumeration against a reference, not a simulator)",
 "C02": "check-digit computation/uniqueness is pure arithmetic over (country, BBAN, dd); nothing to interleave or fail",
 "C03": "error detection of mod-97 is a pure function of the mutated text",
 "C04": "BIC acceptance is a pure function of the text and the compliance flag",
 "C05": "totality / error-class accuracy is a pure input->exception map; nothing to schedule or fault",
 "C06": "national algorithms are pure functions of the BBAN; needs an independent arithmetic reference, not a simulator",
 "C07": "agreement with the Bundesbank methods is pure arithmetic; only its 'depends on nothing but method and account' clause is schedule/history shaped and that part is decided under C14/C15",
 "C08": "component placement/padding is a pure function of (country, components)",
 "C09": "compute/validate agreement and parse->rebuild are pure round-trips",
 "C10": "whitespace/case normalisation is a pure function of the text",
 "C11": "field decomposition is pure slicing of an accepted string against a static table",
 "C12": "lookups are pure functions of (registry data, key); the file-loading side is decided under C18",
 "C16": "equality/hash/order/copy/pickle are pure functions of the object value",
 "C17": "a lint over static bundled data; no execution behaviour to schedule or fault",
}
PENDING = {}
import sys
checks = json.load(open('/verif/manifest_checks.json'))
claimed = {c["property_id"] for c in checks}
for pid, why in json.load(open('/verif/manifest_pending.json')).items():
    if pid not in claimed: NA[pid] = why
m = {
 "version": 1,
 "setup_cmd": "/venv/bin/python -c \"import hypothesis\" 2>/dev/null || /venv/bin/pip install --no-index --find-links /opt/veriftools/wheels hypothesis; /venv/bin/python checks/selftest.py smoke",
 "hooks": {
  "guard": "SCHWIFTY_VERIF",
  "enable": "no source hook exists: every seam the simulator needs is already in the code or the interpreter (sys.monitoring, threading.Lock factories, the random= parameter, importlib.resources.files, os.fork, PYTHONHASHSEED); checks import /repo's working tree directly (SCHWIFTY_SRC, default /repo)",
  "baseline_off_cmd": "cd /repo && /venv/bin/python -m pytest -ra -q -p no:cacheprovider --timeout=900 --continue-on-collection-errors",
  "source_commits": [],
  "add_only": True
 },
 "engines": [
  {"name": "schwifty-sim", "path": "sim/", "serves_properties": sorted(claimed),
   "kind_free_text": "deterministic simulation with fault injection: seeded baton-passing thread scheduler on sys.monitoring events with simulated locks (C14), seeded call-history machine with mid-call aborts against a pristine-process reference (C15), scripted PRNG / entropy taps / hash-seed and process variation (C13), in-memory registry storage with shuffled enumeration and read faults (C18); fork-per-run isolation, ddmin minimisation, replay files"}
 ],
 "checks": checks,
 "not_applicable": [{"property_id": k, "reason": v} for k, v in sorted(NA.items())],
 "notes": "Technique family: deterministic simulation with fault injection. Genuine defects repaired in /repo by 'fix:' commits are recorded in known_findings.json ('fixed' entries suppress nothing). Exit codes: 0 held, 1 violation (VIOLATION line + replay file), 2 HARNESS-ERROR."
}
json.dump(m, open('/verif/MANIFEST.json','w'), indent=1)
print("ok", sorted(claimed), sorted(NA))
