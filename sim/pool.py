"""Deterministic input pool built from the tree under test.

Built once per check in a throw-away forked child (so building it never warms a worker) by scanning
the tree's own registries and calling its own generators.  A pool item never needs to be
"correct", only discriminating: every oracle that uses it is relative to a reference run of the
same tree.
"""

from __future__ import annotations

import random


def build_pool() -> dict:
    import schwifty
    from schwifty import checksum, registry

    IBAN, BIC, BBAN = schwifty.IBAN, schwifty.BIC, schwifty.BBAN
    rnd = random.Random("schwifty-verif-pool")
    pool: dict = {}

    spec = registry.get("iban")
    countries = sorted(spec)
    pool["countries"] = countries
    pool["countries_with_positions"] = [c for c in countries if "positions" in spec[c]]
    banks = registry.get("bank")
    pool["bank_countries"] = sorted({e["country_code"] for e in banks})

    # ---- valid IBANs per country (two seeded draws, registry on/off) ---------------------------
    valid: dict[str, list[str]] = {}
    for cc in countries:
        got: list[str] = []
        for seed, use_registry in ((1, True), (2, False), (3, True), (4, False)):
            try:
                text = str(IBAN.random(cc, random=random.Random(seed), use_registry=use_registry))
            except Exception:  # noqa: BLE001
                continue
            if text not in got:
                got.append(text)
            if len(got) == 2:
                break
        valid[cc] = got
    pool["valid_ibans"] = valid
    comps: dict[str, list[list[str]]] = {}
    for cc in countries:
        rows = []
        for t in valid[cc]:
            try:
                ib = IBAN(t)
                rows.append([ib.bank_code, ib.branch_code, ib.account_code, str(ib.bban)])
            except Exception:  # noqa: BLE001
                pass
        comps[cc] = rows
    pool["components"] = comps

    # ---- invalid / unusual texts ---------------------------------------------------------------
    invalid: list[list[str]] = []
    for cc in countries:
        if not valid[cc]:
            continue
        t = valid[cc][0]
        pos = rnd.randrange(4, len(t))
        ch = t[pos]
        repl = str((int(ch) + 1 + rnd.randrange(8)) % 10) if ch.isdigit() else ("A" if ch != "A" else "B")
        choice = rnd.randrange(8)
        if choice == 0:
            invalid.append(["subst", t[:pos] + repl + t[pos + 1:]])
        elif choice == 1:
            invalid.append(["short", t[:-1]])
        elif choice == 2:
            invalid.append(["long", t + "0"])
        elif choice == 3:
            invalid.append(["spaced-lower", " ".join(t[i:i + 4] for i in range(0, len(t), 4)).lower()])
        elif choice == 4:
            invalid.append(["nonascii-digit", t[:pos] + "٣" + t[pos + 1:]])
        elif choice == 5:
            invalid.append(["checkdigits", t[:2] + f"{(int(t[2:4]) + 1) % 100:02d}" + t[4:]])
        elif choice == 6:
            invalid.append(["swap", t[:pos - 1] + t[pos] + t[pos - 1] + t[pos + 1:]])
        else:
            invalid.append(["tab-newline", "\t" + t[:7] + "\n" + t[7:] + "  "])
    invalid += [["unknown-cc", "XX8937040044053201300"], ["empty", ""], ["junk", "!!"],
                ["lower-cc", "de89370400440532013000"], ["cc-only", "DE"], ["digits", "1234567890"],
                ["nonascii", "DE89ä370400440532013000"], ["long-junk", "A" * 40]]
    pool["odd_ibans"] = invalid

    # ---- German methods ------------------------------------------------------------------------
    de_banks: dict[str, list[str]] = {}
    for e in banks:
        if e["country_code"] == "DE" and e.get("checksum_algo"):
            de_banks.setdefault(e["checksum_algo"], []).append(e["bank_code"])
    de_methods: dict[str, dict] = {}
    for key in sorted(k for k in checksum.algorithms if k.startswith("DE:")):
        algo = checksum.algorithms[key]
        name = key.split(":", 1)[1]
        r = random.Random("acct:" + key)
        cands = ["0499999999", "0396000000", "0000001234", "0000005999", "0000006000", "0450000000",
                 "0012345678", "0099999999", "1234567890", "9999999999", "0000000000"]
        classes: dict[str, list[str]] = {}
        tries = 0
        while tries < 4000 and (sum(map(len, classes.values())) < 12 or len(classes) < 4) and tries < 4000:
            if tries < len(cands):
                acct = cands[tries]
            else:
                style = r.randrange(4)
                if style == 0:
                    acct = f"{r.randrange(10**10):010d}"
                elif style == 1:
                    acct = f"{r.randrange(10**8):010d}"
                elif style == 2:
                    acct = f"{r.randrange(10**6):010d}"
                else:
                    acct = "0" + f"{r.randrange(10**9):09d}"
            tries += 1
            try:
                verdict = algo.validate([acct], "")
                cls = "accept" if verdict else "reject"
                rem = getattr(algo, "remainder", None)
                if rem in (0, 1):
                    cls += f":rem{rem}"
            except Exception as e:  # noqa: BLE001
                cls = "raise:" + type(e).__name__
            bucket = classes.setdefault(cls, [])
            if len(bucket) < 3 and acct not in bucket:
                bucket.append(acct)
        accounts = [[a, c] for c in sorted(classes) for a in classes[c]]
        codes = sorted(set(de_banks.get(name, [])))
        de_methods[key] = {"accounts": accounts, "bank_code": codes[0] if codes else None}
    pool["de_methods"] = de_methods

    # IBAN texts for DE methods used by a bank
    de_ibans: dict[str, list[list[str]]] = {}
    for key, info in de_methods.items():
        if not info["bank_code"]:
            continue
        texts = []
        for acct, cls in info["accounts"]:
            try:
                texts.append([str(IBAN.generate("DE", info["bank_code"], acct)), cls])
            except Exception:  # noqa: BLE001
                pass
        de_ibans[key] = texts
    pool["de_ibans"] = de_ibans

    # ---- non-German algorithms: direct calls and IBAN texts ------------------------------------
    algos: dict[str, list] = {}
    natl: dict[str, list[list[str]]] = {}
    for key in sorted(k for k in checksum.algorithms if not k.startswith("DE:")):
        cc = key.split(":", 1)[0]
        algo = checksum.algorithms[key]
        cases = []
        texts = []
        for t in valid.get(cc, []):
            try:
                ib = IBAN(t)
                comps = [ib.bban._get_component(c) for c in algo.accepts]
                expected = ib.bban.national_checksum_digits
            except Exception:  # noqa: BLE001
                continue
            cases.append([comps, expected])
            texts.append([t, "as-generated"])
            # a nationally perturbed variant: change one character of the last component, rebuild IBAN
            last = comps[-1]
            if last and last[-1].isdigit():
                pert = last[:-1] + str((int(last[-1]) + 3) % 10)
                cases.append([comps[:-1] + [pert], expected])
                bb = str(ib.bban)
                idx = bb.rfind(last)
                if idx >= 0:
                    try:
                        t2 = str(IBAN.from_bban(cc, bb[:idx] + pert + bb[idx + len(last):]))
                        texts.append([t2, "perturbed"])
                    except Exception:  # noqa: BLE001
                        pass
        if not cases:
            filler = ["1234", "5678", "0123456789", "12345678", "00"]
            cases.append([filler[: len(algo.accepts)], "00"])
        algos[key] = cases
        natl[key] = texts
    if "ES:default" in algos:  # both special branches of the Spanish reconcile step
        algos["ES:default"] += [[["0000", "0000", "0000000000"], "00"], [["0000", "0000", "1000000000"], "01"],
                                [["1000", "0000", "0000000000"], "10"]]
    pool["algos"] = algos
    pool["natl_ibans"] = natl

    # ---- bank keys -----------------------------------------------------------------------------
    index = registry.get("bank_code")
    keys = sorted(index)
    ordersens = [list(k) for k in keys
                 if sorted(index[k], key=lambda e: e["primary"], reverse=True) != index[k]]
    multi = [list(k) for k in keys if len(index[k]) > 1]
    single = [list(k) for k in keys if len(index[k]) == 1]
    pool["bank_keys"] = {
        "ordersens": ordersens[:80],
        "multi": [multi[i] for i in range(0, len(multi), max(1, len(multi) // 60))][:70],
        "single": [single[i] for i in range(0, len(single), max(1, len(single) // 80))][:90],
        "many": [single[i] for i in range(3, len(single), max(1, len(single) // 700))][:640],
        "missing": [["DE", "01010101"], ["XX", "1"], ["DE", ""], ["", ""], ["FR", "99999"],
                    ["GB", "ZZZZ"], ["CY", ""], ["GR", ""]],
    }

    # IBANs whose bank lookup goes through the order-sensitive / multi keys
    lookup_ibans: list[str] = []
    for cc, code in (ordersens[:40] + pool["bank_keys"]["multi"][:30]):
        try:
            sp = spec[cc]
            acct_len = sp["positions"]["account_code"][1] - sp["positions"]["account_code"][0]
            text = str(IBAN.generate(cc, bank_code=code, account_code="1" * min(acct_len, 4)))
            lookup_ibans.append(text)
        except Exception:  # noqa: BLE001
            continue
    pool["lookup_ibans"] = lookup_ibans

    # ---- BICs ----------------------------------------------------------------------------------
    bic_index = registry.get("bic")
    bkeys = sorted(bic_index)
    reg_bics = [bkeys[i] for i in range(0, len(bkeys), max(1, len(bkeys) // 120))][:130]
    pool["bics"] = {
        "by_country": {cc: [f"NLPR{cc}PR", f"ABCD{cc}2AXXX", f"12AB{cc}2A"] for cc in countries},
        "registry": reg_bics,
        "valid": ["GENODEM1GLS", "MARKDEF1100", "DEUTDEFF", "BNPAFRPPXXX", "1234DEWW", "AAAADE00", "ABCDUS12345",
                  "9ABCFRPP", "A1B2GB2L", "1234DEWWXXX", "0000NL2A"],
        "odd": ["", "GENODEM1GL", "GENODEM1GLSX", "GENOXXM1GLS", "geno de m1 gls", "1234DEWWXXX",
                "GENODEM1GLS\n", "GENÖDEM1GLS", "GENODEM1G S", "AAAAZZ00", "DEUTDEFF500EXTRA",
                "12345678", "ABCD1234", "٣ENODEM1GLS"],
    }

    # ---- seeded draws whose internal attempts fail at least once (retry path of BBAN.random) -------------
    class _Counting(random.Random):
        calls = 0

        def choice(self, seq):
            self.calls += 1
            return super().choice(seq)

        def randint(self, a, b):
            self.calls += 1
            return super().randint(a, b)

    retry_cases = []
    for key in sorted(k for k in checksum.algorithms if k.endswith(":default")):
        cc = key.split(":", 1)[0]
        if cc not in spec:
            continue
        for use_registry in (True, False):
            counts = {}
            for seed in range(40):
                r = _Counting(seed)
                try:
                    IBAN.random(cc, random=r, use_registry=use_registry)
                except Exception:  # noqa: BLE001
                    pass
                counts[seed] = r.calls
            low = min(counts.values())
            for seed, c in counts.items():
                if c > low and len([1 for x in retry_cases if x[0] == cc and x[2] == use_registry]) < 3:
                    retry_cases.append([cc, seed, use_registry, {}])
    # pinned combinations for which every internal attempt fails: the documented overflow error (a *failing* call
    # whose failure comes from inside the retry loop)
    from schwifty.exceptions import GenerateRandomOverflowError

    for key in sorted(k for k in checksum.algorithms if k.endswith(":default")):
        cc = key.split(":", 1)[0]
        if cc not in spec or not pool["components"].get(cc):
            continue
        bank, branch, acct, _ = pool["components"][cc][0]
        r = random.Random("overflow:" + cc)
        found = 0
        for _ in range(25):
            pinned_acct = "".join(r.choice("0123456789") if ch.isdigit() else ch for ch in acct)
            pins = {"bank_code": bank, "account_code": pinned_acct}
            if branch:
                pins["branch_code"] = branch
            try:
                IBAN.random(cc, random=random.Random(5), use_registry=True, **pins)
            except GenerateRandomOverflowError:
                retry_cases.append([cc, 5, True, pins])
                found += 1
                if found == 2:
                    break
            except Exception:  # noqa: BLE001
                break
    pool["retry_cases"] = retry_cases

    # ---- seeded random cases -------------------------------------------------------------------
    cases = []
    sample_cc = [""] + [countries[i] for i in range(0, len(countries), 3)] + ["DE", "PL", "SI", "NO", "MU", "SC", "GB", "FR", "ES", "IT"]
    for i, cc in enumerate(sample_cc):
        cases.append([cc, 1000 + i, bool(i % 2), {}])
    cases.append(["DE", 5, True, {"bank_code": "37040044"}])
    cases.append(["GB", 6, True, {"account_code": "12345678"}])
    cases.append(["FR", 7, False, {"bank_code": "30004"}])
    cases.append(["ZZ", 8, True, {}])
    pool["random_cases"] = cases
    return pool
