"""Violation pipeline shared by all checks: confirm → minimise → write replay → fresh-interpreter
replay → VIOLATION / KNOWN-FINDING line.  A violation that does not survive confirmation or the
fresh replay is a determinism failure of the harness (HARNESS-ERROR), never silently dropped and
never reported as a violation."""

from __future__ import annotations

import json
import os
import sys

from . import core, isolate
from .runner import replay_dir

MAX_CLASSES = 6


def class_key(rec: dict) -> str:
    return core.jdump(rec["violation"]["signature"])


def write_replay(prop: str, rec: dict) -> str:
    name = f"{rec.get('verif_seed', 0)}-{rec.get('run_index', 'x')}-{core.jhash(rec['violation']['signature'])[:8]}.json"
    path = os.path.join(replay_dir(prop), name)
    with open(path, "w", encoding="utf-8") as fp:
        json.dump(rec, fp, indent=1, sort_keys=True, ensure_ascii=True)
        fp.write("\n")
    return path


def process(prop: str, violations: list[dict], confirm, minimise, script: str) -> int:
    """Returns the number of violation classes not listed as known findings."""
    known = core.load_known_findings(prop)
    classes: dict[str, dict] = {}
    counts: dict[str, int] = {}
    for rec in violations:
        k = class_key(rec)
        counts[k] = counts.get(k, 0) + 1
        classes.setdefault(k, rec)
    unlisted = 0
    for n, (k, rec) in enumerate(sorted(classes.items())):
        sig = rec["violation"]["signature"]
        confirmed = confirm(rec)
        if confirmed is None or class_key(confirmed) != k:
            raise core.HarnessError(
                f"violation of {prop} did not reproduce from its record in a pristine fork: {k}\n"
                f"record: {core.jdump(rec)[:2000]}")
        small = minimise(confirmed) if n < MAX_CLASSES else confirmed
        small.setdefault("minimised_from", {})
        path = write_replay(prop, small)
        res = isolate.fresh_python([script, "--replay", path], timeout=600)
        out = res.stdout.decode("utf-8", "replace")
        if res.returncode != 1 or "REPRODUCED" not in out:
            raise core.HarnessError(
                f"replay of {path} in a fresh interpreter did not reproduce (rc={res.returncode})\n"
                f"stdout: {out[-2000:]}\nstderr: {res.stderr.decode('utf-8', 'replace')[-2000:]}")
        f = core.match_known(sig, known)
        detail = small["violation"].get("detail", "")
        if f is not None:
            print(f"KNOWN-FINDING: property={prop} {f.get('what', '')} [replay={path}] (x{counts[k]})")
        else:
            unlisted += 1
            print(f"VIOLATION property={prop} replay={path}")
            print(f"  class={k} occurrences={counts[k]} detail={detail}"[:1500])
        sys.stdout.flush()
    return unlisted
