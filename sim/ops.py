"""The operation language (JSON-serialisable API calls) and the outcome canonicaliser.

An op is a JSON list ``[kind, arg, ...]``.  Its outcome is ``["ok", canon(value)]`` or
``["exc", qualified class name, str(e)]``.  Ops whose argument is ``{"ref": j}`` take the *object*
produced by the j-th op of the same history (C15 object pool); everything else is self-contained.

The oracles of C14/C15 only ever compare an op's outcome with the outcome of the same op (plus the
ops it references) in a reference execution of the same tree, so nothing in here judges whether an
answer is ISO-correct.
"""

from __future__ import annotations

import copy
import pickle
import random as _random
import warnings

import re as _re

_ADDR = _re.compile(r" at 0x[0-9a-fA-F]+")  # object addresses differ between the reference fork and the run

PROP_NAMES_IBAN = [
    "compact", "length", "formatted", "numeric", "country_code", "checksum_digits",
    "national_checksum_digits", "bank_code", "branch_code", "account_code", "account_id",
    "account_type", "account_holder_id", "currency_code", "bank", "bank_name", "bank_short_name",
    "bic", "country", "in_sepa_zone", "is_valid", "spec", "bban",
]
PROP_NAMES_BBAN = [
    "compact", "length", "country_code", "national_checksum_digits", "bank_code", "branch_code",
    "account_code", "account_id", "account_type", "account_holder_id", "currency_code", "bank",
    "bank_name", "bank_short_name", "bic", "spec",
]
PROP_NAMES_BIC = [
    "compact", "length", "formatted", "bank_code", "country_code", "location_code", "branch_code",
    "type", "exists", "is_valid", "country", "domestic_bank_codes", "bank_names",
    "bank_short_names", "country_bank_code", "bank_name", "bank_short_name",
]


def _lib():
    import schwifty
    from schwifty import checksum, registry

    return schwifty, checksum, registry


def canon(v, depth: int = 0):
    """Map a library value to plain JSON-able data (lists, dicts with str keys, scalars)."""
    import re

    if depth > 12:
        return ["<deep>"]
    if v is None or isinstance(v, (bool, int, float)):
        return v
    tname = type(v).__name__
    mod = type(v).__module__ or ""
    if isinstance(v, str):
        if mod.startswith("schwifty"):
            # the *value* of the object: text, country and (for an IBAN) its BBAN - read through the public
            # attributes, never through __dict__ (whether something is cached there yet is not part of the value)
            out = [tname, str.__str__(v)]
            if tname == "BBAN":
                try:
                    out.append(["cc", canon(v.country_code, depth + 1)])
                except Exception:  # noqa: BLE001
                    pass
            try:
                bban = getattr(v, "bban", None) if tname == "IBAN" else None
            except Exception:  # noqa: BLE001
                bban = None
            if bban is not None:
                out.append(["bban", canon(bban, depth + 1)])
            return out
        if type(v) is not str:
            return [tname, str.__str__(v)]
        return v
    if isinstance(v, bytes):
        return ["bytes", v.hex()]
    if isinstance(v, dict):
        items = [[canon(k, depth + 1), canon(x, depth + 1)] for k, x in v.items()]
        try:
            items.sort(key=lambda kv: repr(kv[0]))
        except Exception:  # noqa: BLE001
            pass
        return ["dict", items]
    if isinstance(v, (list, tuple)):
        return [tname, [canon(x, depth + 1) for x in v]]
    if isinstance(v, (set, frozenset)):
        return [tname, sorted((canon(x, depth + 1) for x in v), key=repr)]
    if isinstance(v, re.Pattern):
        return ["re", v.pattern, v.flags]
    if mod.startswith("pycountry"):
        return ["country", getattr(v, "alpha_2", None), getattr(v, "name", None)]
    if hasattr(v, "__dataclass_fields__"):
        return [tname, canon({k: getattr(v, k) for k in v.__dataclass_fields__}, depth + 1)]
    return ["obj", mod + "." + tname, _ADDR.sub(" at 0x?", repr(v))[:200]]


def exc_outcome(e: BaseException):
    t = type(e)
    return ["exc", f"{t.__module__}.{t.__qualname__}", _ADDR.sub(" at 0x?", str(e))[:400]]


def _props(obj, names):
    out = []
    for name in names:
        try:
            out.append([name, ["ok", canon(getattr(obj, name))]])
        except Exception as e:  # noqa: BLE001
            out.append([name, exc_outcome(e)])
    return out


def _resolve(arg, objs):
    if isinstance(arg, dict) and "ref" in arg:
        return objs[arg["ref"]]
    return arg


def refs_of(op) -> list[int]:
    out = []

    def walk(x):
        if isinstance(x, dict):
            if "ref" in x and len(x) == 1:
                out.append(x["ref"])
            else:
                for y in x.values():
                    walk(y)
        elif isinstance(x, list):
            for y in x:
                walk(y)

    walk(op[1:])
    return out


def closure_chain(history: list, j: int) -> list:
    need: set[int] = set()

    def visit(i: int) -> None:
        if i in need:
            return
        need.add(i)
        for r in refs_of(history[i]):
            visit(r)

    visit(j)
    order = sorted(need)
    renum = {old: new for new, old in enumerate(order)}

    def remap(x):
        if isinstance(x, dict):
            if "ref" in x and len(x) == 1:
                return {"ref": renum[x["ref"]]}
            return {k: remap(v) for k, v in x.items()}
        if isinstance(x, list):
            return [remap(y) for y in x]
        return x

    return [[history[i][0], *remap(history[i][1:])] for i in order]


def execute(op, objs: list | None = None):
    """Execute one op.  Returns (outcome, produced_object_or_None)."""
    schwifty, checksum, registry = _lib()
    IBAN, BIC, BBAN = schwifty.IBAN, schwifty.BIC, schwifty.BBAN
    objs = objs if objs is not None else []
    kind = op[0]
    try:
        with warnings.catch_warnings():
            warnings.simplefilter("ignore")
            if kind == "iban":
                o = IBAN(_resolve(op[1], objs), **op[2])
                return ["ok", canon(o)], o
            if kind == "iban_validate":
                o = IBAN(op[1], allow_invalid=True)
                return ["ok", canon(o.validate(op[2]))], o
            if kind == "iban_is_valid":
                o = IBAN(op[1], allow_invalid=True)
                return ["ok", canon(o.is_valid)], o
            if kind == "iban_props":
                o = IBAN(op[1], allow_invalid=True)
                return ["ok", _props(o, PROP_NAMES_IBAN)], o
            if kind == "iban_checksum":
                o = IBAN(op[1], allow_invalid=True)
                return ["ok", canon(o.bban.validate_national_checksum())], o
            if kind == "from_bban":
                o = IBAN.from_bban(op[1], _resolve(op[2], objs), **op[3])
                return ["ok", canon(o)], o
            if kind == "generate":
                o = IBAN.generate(op[1], bank_code=op[2], account_code=op[3], branch_code=op[4])
                return ["ok", canon(o)], o
            if kind == "from_components":
                o = BBAN.from_components(op[1], **op[2])
                return ["ok", canon(o)], o
            if kind == "bban":
                o = BBAN(op[1], op[2])
                return ["ok", canon(o)], o
            if kind == "bban_props":
                o = BBAN(op[1], op[2])
                return ["ok", _props(o, PROP_NAMES_BBAN)], o
            if kind == "bban_checksum":
                o = BBAN(op[1], op[2])
                return ["ok", canon(o.validate_national_checksum())], o
            if kind == "iban_random":
                o = IBAN.random(op[1], random=_random.Random(op[2]), use_registry=op[3], **op[4])
                return ["ok", canon(o)], o
            if kind == "bban_random":
                o = BBAN.random(op[1], random=_random.Random(op[2]), use_registry=op[3], **op[4])
                return ["ok", canon(o)], o
            if kind == "bic":
                o = BIC(_resolve(op[1], objs), **op[2])
                return ["ok", canon(o)], o
            if kind == "bic_validate":
                o = BIC(op[1], allow_invalid=True)
                return ["ok", canon(o.validate(op[2]))], o
            if kind == "bic_props":
                o = BIC(op[1], allow_invalid=True)
                return ["ok", _props(o, PROP_NAMES_BIC)], o
            if kind == "bic_from_bank_code":
                o = BIC.from_bank_code(op[1], op[2])
                return ["ok", canon(o)], o
            if kind == "bic_candidates":
                o = BIC.candidates_from_bank_code(op[1], op[2])
                return ["ok", canon(o)], o
            if kind == "algo_validate":
                r = checksum.algorithms[op[1]].validate(list(op[2]), op[3])
                return ["ok", canon(r)], None
            if kind == "algo_compute":
                r = checksum.algorithms[op[1]].compute(list(op[2]))
                return ["ok", canon(r)], None
            if kind == "registry_get":
                r = registry.get(op[1])
                return ["ok", ["len", len(r)]], None
            # ---- ops on earlier objects (C15) -------------------------------------------------
            if kind == "revalidate":
                o = objs[op[1]["ref"]]
                return ["ok", canon(o.validate(op[2]))], None
            if kind == "props":
                o = objs[op[1]["ref"]]
                names = (PROP_NAMES_IBAN if isinstance(o, IBAN) else
                         PROP_NAMES_BIC if isinstance(o, BIC) else PROP_NAMES_BBAN)
                return ["ok", _props(o, names)], None
            if kind == "cmp":
                a, b = objs[op[1]["ref"]], objs[op[2]["ref"]]
                return ["ok", [a == b, a != b, a < b, a <= b, a > b, a >= b,
                               hash(a) == hash(b), hash(a) == hash(str(a))]], None
            if kind == "copy":
                o = objs[op[1]["ref"]]
                c = copy.copy(o)
                return ["ok", [canon(c), c == o]], c
            if kind == "deepcopy":
                o = objs[op[1]["ref"]]
                c = copy.deepcopy(o)
                return ["ok", [canon(c), c == o]], c
            if kind == "pickle":
                o = objs[op[1]["ref"]]
                c = pickle.loads(pickle.dumps(o))
                return ["ok", [canon(c), c == o]], c
            if kind == "sorted":
                xs = [objs[r["ref"]] for r in op[1]]
                return ["ok", canon(sorted(xs))], None
            if kind == "checksum_of":
                o = objs[op[1]["ref"]]
                b = o.bban if isinstance(o, IBAN) else o
                return ["ok", canon(b.validate_national_checksum())], None
            if kind == "bank_of":
                o = objs[op[1]["ref"]]
                return ["ok", canon(o.bank)], None
            raise KeyError(f"unknown op kind {kind!r}")
    except Exception as e:  # noqa: BLE001
        if isinstance(e, KeyError) and str(e).startswith("'unknown op kind"):
            raise
        return exc_outcome(e), None


def snapshot(obj) -> dict:
    """State of a previously created object that later calls must not change (a dict, so that
    attributes added later - e.g. a cached_property - count as additions, not as a change)."""
    d = getattr(obj, "__dict__", None)

    def keep(v, depth=0):
        # like canon(), but dictionaries stay dictionaries so that keys added later count as additions
        if isinstance(v, dict) and depth < 6:
            return {repr(k): keep(x, depth + 1) for k, x in v.items()}
        return canon(v)

    # underscore attributes are private caches of the implementation (they may be filled lazily, grow, be evicted);
    # whether they ever change an answer is decided by the outcome oracle on later uses of the object
    public = {str(k): keep(v) for k, v in d.items() if not str(k).startswith("_")} if d is not None else {}
    return {"type": type(obj).__name__,
            "str": str.__str__(obj) if isinstance(obj, str) else canon(obj),
            "attrs": public,
            "private_attr_names": sorted(str(k) for k in d if str(k).startswith("_")) if d is not None else []}


def op_key(op) -> str:
    from .core import jdump

    return jdump(op)


PROTOCOL_OPS = ("pickle", "copy", "deepcopy")


def same_outcome(op, a, b) -> bool:
    """Outcome equality as C14/C15 demand it.  For the generic Python protocols (copy, deepcopy, pickle) applied to
    library objects only a *successful* result has to be the same; when the protocol fails in both executions, which
    exception the interpreter's copy/pickle machinery ends up raising depends on private attributes the object may
    have gained (caches) and is C16's business (copy/pickle semantics), not a library call whose outcome C14/C15
    speak about."""
    if a == b:
        return True
    return op[0] in PROTOCOL_OPS and a[:1] == ["exc"] and b[:1] == ["exc"]
