"""Simulator-owned PRNGs and entropy taps for C13.

``ScriptedRandom`` answers every public drawing method the generation path uses from the run PRNG
under a per-run bias (uniform / always-first / always-last / sticky-repeat / mixed extremes) and
logs every call; this reaches what uniform draws almost never do (the same failing BBAN 100 times
in a row, all-zero accounts, the first and last bank of every country).

``EntropyTaps`` records any use of randomness or time that does not come from the generator the
caller supplied: a changed state of the global ``random`` generator, OS-entropy seeding of a new
``Random``, ``os.urandom`` / ``random._urandom``, and the ``time`` module's clocks.
"""

from __future__ import annotations

import os
import random
import time

BIASES = ["uniform", "first", "last", "sticky", "extremes"]


class ScriptedRandom(random.Random):
    def __init__(self, seed: int, bias: str = "uniform") -> None:
        super().__init__(seed)
        self.bias = bias
        self.calls = 0
        self._last_frac = 0.0

    # one fraction in [0,1) per decision, shaped by the bias
    def _frac(self) -> float:
        self.calls += 1
        u = super().random()
        b = self.bias
        if b == "uniform":
            f = u
        elif b == "first":
            f = 0.0
        elif b == "last":
            f = 0.999999999
        elif b == "sticky":
            f = self._last_frac if u < 0.8 else super().random()
        else:  # extremes
            f = 0.0 if u < 0.4 else 0.999999999 if u < 0.8 else super().random()
        self._last_frac = f
        return f

    def random(self) -> float:
        return self._frac()

    def randrange(self, start, stop=None, step=1):
        if stop is None:
            start, stop = 0, start
        n = len(range(start, stop, step))
        if n <= 0:
            raise ValueError("empty range for randrange()")
        return start + step * int(self._frac() * n)

    def randint(self, a, b):
        return self.randrange(a, b + 1)

    def choice(self, seq):
        if not len(seq):
            raise IndexError("Cannot choose from an empty sequence")
        return seq[int(self._frac() * len(seq))]

    def shuffle(self, x) -> None:
        for i in reversed(range(1, len(x))):
            j = int(self._frac() * (i + 1))
            x[i], x[j] = x[j], x[i]

    def sample(self, population, k, *, counts=None):
        pool = list(population)
        self.shuffle(pool)
        return pool[:k]

    def choices(self, population, weights=None, *, cum_weights=None, k=1):
        return [self.choice(population) for _ in range(k)]

    def uniform(self, a, b):
        return a + (b - a) * self._frac()

    def getrandbits(self, k):
        return int(self._frac() * (1 << k))


def make_prng(spec):
    """spec = ["mt", seed] | ["scripted", seed, bias]"""
    if spec[0] == "mt":
        return random.Random(spec[1])
    return ScriptedRandom(spec[1], spec[2])


class EntropyTaps:
    """Context manager; `.events` lists every foreign entropy/time use seen while armed."""

    def __init__(self) -> None:
        self.events: list[str] = []
        self._saved: list = []

    def _wrap(self, mod, name: str, label: str) -> None:
        orig = getattr(mod, name)
        events = self.events

        def tapped(*a, **k):
            events.append(label)
            return orig(*a, **k)

        self._saved.append((mod, name, orig))
        setattr(mod, name, tapped)

    def __enter__(self):
        self.events.clear()
        self._state = random.getstate()
        orig_seed = random.Random.seed
        events = self.events

        def seed(self_, a=None, version=2):
            if a is None:
                events.append("Random() seeded from OS entropy")
            return orig_seed(self_, a, version)

        self._saved.append((random.Random, "seed", orig_seed))
        random.Random.seed = seed
        self._wrap(os, "urandom", "os.urandom")
        self._wrap(random, "_urandom", "random._urandom (SystemRandom)")
        for name in ("time", "time_ns", "monotonic", "monotonic_ns", "perf_counter", "perf_counter_ns"):
            self._wrap(time, name, f"time.{name}")
        return self

    def __exit__(self, *exc) -> None:
        for mod, name, orig in reversed(self._saved):
            setattr(mod, name, orig)
        self._saved.clear()
        if random.getstate() != self._state:
            self.events.append("state of the global random generator changed")


class Perturb:
    """Force every foreign entropy / clock source to a fixed, k-dependent value.  If a draw's result
    changes between two perturbations the result depends on that source (not on the supplied
    generator alone); if it does not, touching the source was harmless."""

    def __init__(self, k: int) -> None:
        self.k = k
        self._saved: list = []

    def _set(self, mod, name, value) -> None:
        self._saved.append((mod, name, getattr(mod, name)))
        setattr(mod, name, value)

    def __enter__(self):
        k = self.k
        self._state = random.getstate()
        random.seed(1000 + k)
        orig_seed = random.Random.seed

        def seed(self_, a=None, version=2):
            return orig_seed(self_, 7000 + k if a is None else a, version)

        self._set(random.Random, "seed", seed)
        self._set(os, "urandom", lambda n: bytes([k]) * n)
        self._set(random, "_urandom", lambda n: bytes([k]) * n)
        for name in ("time", "monotonic", "perf_counter"):
            self._set(time, name, lambda k=k: 1000.0 * k)
        for name in ("time_ns", "monotonic_ns", "perf_counter_ns"):
            self._set(time, name, lambda k=k: 1000 * k)
        return self

    def __exit__(self, *exc) -> None:
        for mod, name, orig in reversed(self._saved):
            setattr(mod, name, orig)
        self._saved.clear()
        random.setstate(self._state)
