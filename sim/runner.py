"""Shared check infrastructure: process bootstrap, pristine workers, solo (reference) outcomes."""

from __future__ import annotations

import os
import sys
import time
import warnings

from . import core, isolate, ops, sched

POOL: dict | None = None
PKG_DIR: str = ""
_SOLO: dict[str, dict] = {}
WARM_BATTERY: list = []


def bootstrap(import_package: bool = True) -> None:
    """Called first by every check: fixed hash seed, lock seam, tree under test imported (and not
    called — the importing process stays pristine)."""
    global PKG_DIR
    core.reexec_with_hashseed()
    import faulthandler

    faulthandler.enable()
    sys.setrecursionlimit(10000)
    warnings.simplefilter("ignore")
    src = core.install_tree()
    PKG_DIR = core.package_dir(src)
    sched.install_lock_seam(PKG_DIR)
    if import_package:
        core.import_tree(src)
        sched.instrument_package(PKG_DIR)
        if not sched._instrumented:
            raise core.HarnessError(f"no code object of the package under {PKG_DIR} could be instrumented")
    import gc

    gc.collect()
    gc.freeze()  # forked children then never traverse (and copy-on-write) the loaded registries


def build_pool_isolated() -> dict:
    from . import pool as pool_mod

    global POOL
    POOL = isolate.fork_call(pool_mod.build_pool, timeout=300)
    return POOL


# ---------------------------------------------------------------------------------------------
# step counting (solo) — also used to place pre-emptions and aborts
# ---------------------------------------------------------------------------------------------


STEP_COUNT_CAP = 200_000


def count_steps(op, granularity: str, warm: bool = False) -> int:
    """Number of pre-emption points the op passes when run alone under the simulator's tracer (counting stops at
    STEP_COUNT_CAP: beyond it the exact number is of no use to any policy).  With `warm` the op is executed once
    untraced first, so that one-time initialisation of a lazily initialising tree is not counted."""
    if warm:
        ops.execute(op)
    s = sched.Scheduler(1, sched.ScriptPolicy([]), PKG_DIR, granularity, STEP_COUNT_CAP)
    s.run(lambda tid: ops.execute(op), watchdog=120.0)
    return min(s.steps, STEP_COUNT_CAP)


def count_steps_seq(op_list, granularity: str, warm: bool = False) -> list:
    """Cumulative pre-emption points after each op of a sequence executed by one simulated thread."""
    if warm and op_list:
        ops.execute(op_list[0])
    s = sched.Scheduler(1, sched.ScriptPolicy([]), PKG_DIR, granularity, STEP_COUNT_CAP)
    marks: list = []

    def body(tid):
        for op in op_list:
            ops.execute(op)
            marks.append(min(s.steps, STEP_COUNT_CAP))

    s.run(body, watchdog=180.0)
    return marks


def steps_seq(op_list, granularity: str, warm: bool = False) -> list:
    key = granularity + ("W" if warm else "C") + "SEQ" + core.jdump(op_list)
    got = _STEPS.get(key)
    if got is None:
        got = isolate.fork_call(count_steps_seq, (op_list, granularity, warm), timeout=240)
        _STEPS[key] = got
    return got


def _solo_child(op):
    out, _ = ops.execute(op)
    return {"outcome": out}


def solo(op) -> dict:
    """Outcome of `op` executed as the only call in a pristine fork of this (pristine) process."""
    key = core.jdump(op)
    got = _SOLO.get(key)
    if got is None:
        got = isolate.fork_call(_solo_child, (op,), timeout=120)
        _SOLO[key] = got
    return got


_STEPS: dict[str, int] = {}


def steps(op, granularity: str, warm: bool = False) -> int:
    """Pre-emption points `op` passes alone (pristine fork), per granularity; cached."""
    key = granularity + ("W" if warm else "C") + core.jdump(op)
    got = _STEPS.get(key)
    if got is None:
        got = isolate.fork_call(count_steps, (op, granularity, warm), timeout=180)
        _STEPS[key] = got
    return got


def _count_lines_child(op) -> int:
    from .inject import LineCounter

    with LineCounter() as lc:
        ops.execute(op)
    return lc.count


_LINES: dict[str, int] = {}


def lines(op) -> int:
    """LINE events inside the package when `op` runs alone (pristine fork); cached."""
    key = core.jdump(op)
    got = _LINES.get(key)
    if got is None:
        got = isolate.fork_call(_count_lines_child, (op,), timeout=120)
        _LINES[key] = got
    return got


def solo_history(history: list, want_steps: bool = False) -> dict:
    """Outcome of the *last* op of a short dependency chain executed in a pristine fork."""
    key = "H" + core.jdump(history)
    got = _SOLO.get(key)
    if got is None:
        got = isolate.fork_call(_solo_history_child, (history,), timeout=120)
        _SOLO[key] = got
    return got


def _solo_history_child(history):
    objs: list = []
    out = None
    for op in history:
        out, obj = ops.execute(op, objs)
        objs.append(obj)
    return {"outcome": out}


def warm_up() -> None:
    for op in WARM_BATTERY:
        ops.execute(op)


def heavy_warm_up() -> None:
    """~220 distinct bank-code lookups (and a few repeats) before the simulated threads start."""
    bk = POOL["bank_keys"]
    keys = bk["single"] + bk["multi"] + bk["ordersens"]
    for cc, code in keys + keys[:10]:
        ops.execute(["bic_candidates", cc, code])


def default_warm_battery(pool: dict) -> list:
    b = [["iban", "DE89370400440532013000", {"validate_bban": True}],
         ["iban_props", "DE89370400440532013000"],
         ["bic_props", "GENODEM1GLS"],
         ["bic_from_bank_code", "DE", "43060967"],
         ["iban_random", "DE", 1, True, {}],
         ["iban_random", "", 2, True, {}],
         ["generate", "DE", "37040044", "532013000", ""]]
    for key in sorted(pool["de_methods"]):
        accts = pool["de_methods"][key]["accounts"]
        if accts:
            b.append(["algo_validate", key, [accts[0][0]], ""])
    return b


class Timer:
    def __init__(self) -> None:
        self.t0 = time.monotonic()

    def elapsed(self) -> float:
        return time.monotonic() - self.t0


def chunks(indices: list[int], size: int) -> list[list[int]]:
    return [indices[i:i + size] for i in range(0, len(indices), size)]


def replay_dir(prop: str) -> str:
    d = os.path.join(core.VERIF_DIR, "replays", prop)
    os.makedirs(d, exist_ok=True)
    return d


def wall_cap(tier: str) -> float:
    """Safety net only: absolute time after which workers stop starting new runs (the count of
    runs can only go down, a verdict never changes).  VERIF_WALL_CAP=<seconds> overrides."""
    try:
        cap = float(os.environ.get("VERIF_WALL_CAP") or (1200 if tier == "quick" else 6000))
    except ValueError:
        cap = 1200.0
    return time.time() + cap


def past(deadline) -> bool:
    return deadline is not None and time.time() > deadline
