"""Views and digests of the library's process-wide state, with *preservation semantics*.

Everything present in the pristine state (every key path and value that came from the bundled
files, list order, index membership, every attribute an object had when it was created) must still
be there and equal.  Keys or attributes that were *added* are counted by a probe but are not a
violation by themselves: if an addition is observable it changes some outcome and is caught by the
outcome oracle.

These functions read ``registry._registry`` and ``checksum.algorithms`` directly — they make no
library call, so computing a pristine view does not un-pristine a process.
"""

from __future__ import annotations

import re


REGISTRY_NAMES = ("iban", "bank", "country", "bic", "bank_code")


def _reg():
    """The process-wide registry store as a plain {name: value} dict.  ``registry._registry`` is an internal
    name; if a refactoring renamed or wrapped it, fall back to whatever mapping it is now, and failing that to
    the public accessors for the registries the package declares (a library call, but the only route left)."""
    from collections.abc import Mapping

    from schwifty import registry

    r = getattr(registry, "_registry", None)
    if isinstance(r, dict):
        return r
    if isinstance(r, Mapping):
        return dict(r.items())
    import types

    def holds_registries(m) -> bool:
        try:
            return isinstance(m, Mapping) and "iban" in m and "bank" in m
        except Exception:  # noqa: BLE001 - e.g. os.environb insists on bytes keys
            return False

    for v in vars(registry).values():  # a renamed dict / store object holding the well-known names
        if isinstance(v, (types.ModuleType, type, types.FunctionType)):
            continue
        if holds_registries(v):
            return dict(v.items())
        inner = getattr(v, "__dict__", None)
        if isinstance(inner, dict):
            for w in inner.values():
                if holds_registries(w):
                    return dict(w.items())
    out = {}
    for name in REGISTRY_NAMES:
        try:
            out[name] = registry.get(name)
        except Exception:  # noqa: BLE001
            pass
    return out


OPAQUE: list = []  # registry values no view could look into (reported as a probe, never silently)


def _is_seq(v) -> bool:
    from collections.abc import Sequence

    return isinstance(v, (list, tuple)) or (isinstance(v, Sequence) and not isinstance(v, (str, bytes, bytearray)))


def _is_map(v) -> bool:
    from collections.abc import Mapping

    return isinstance(v, Mapping)


def fast_view() -> tuple:
    """C-speed identity summary; equal to the pristine one <=> nothing moved, appeared or vanished
    at the level shallow_view() looks at.  Only on inequality is the detailed view built."""
    from itertools import chain

    from schwifty import checksum

    reg = _reg()
    parts: list = [tuple(map(repr, reg.keys()))]
    for val in reg.values():
        if _is_seq(val):
            try:  # keys and values of every entry (C speed; str hashes are cached)
                content = (tuple(map(hash, map(tuple, val))),
                           tuple(map(hash, map(tuple, map(dict.values, val) if all(type(e) is dict for e in val[:3])
                                               else (tuple(e.values()) for e in val)))))
            except (TypeError, AttributeError):  # unhashable value / not a mapping somewhere: fall back to text
                content = hash(repr(val))
            parts.append((tuple(map(id, val)), tuple(map(len, val)), content))
        elif _is_map(val):
            vals = val.values()
            first = next(iter(vals), None)
            if _is_seq(first):
                parts.append((tuple(val), tuple(map(len, vals)), tuple(map(id, chain.from_iterable(vals)))))
            else:
                parts.append((tuple(val), tuple(map(id, vals)), hash(repr(val))))
        else:
            OPAQUE.append(type(val).__name__)
            parts.append(repr(type(val)))
    try:
        parts.append(tuple((k, id(v)) for k, v in checksum.algorithms.items()))
    except Exception:  # noqa: BLE001 - an algorithm table that cannot be enumerated
        parts.append(repr(type(checksum.algorithms)))
    return tuple(parts)


def shallow_view() -> dict:
    """Identity structure: which entry objects sit where (ids survive fork)."""
    reg = _reg()
    out: dict = {"keys": sorted(map(repr, reg.keys()))}
    for name, val in reg.items():
        if _is_seq(val):
            out[repr(name)] = ("list", tuple(map(id, val)), tuple(len(e) if hasattr(e, "__len__") else -1 for e in val))
        elif _is_map(val):
            d = {}
            for k, v in val.items():
                if _is_seq(v):
                    d[k] = tuple(map(id, v))
                elif _is_map(v):
                    d[k] = (id(v), tuple(sorted(map(repr, v.keys()))))
                else:
                    d[k] = repr(v)
            out[repr(name)] = ("dict", d)
        else:
            out[repr(name)] = ("other", repr(val))
    from schwifty import checksum

    try:
        out["algorithms"] = tuple((k, id(v), type(v).__qualname__) for k, v in sorted(checksum.algorithms.items()))
    except Exception:  # noqa: BLE001
        out["algorithms"] = ()
    return out


def compare_shallow(pristine: dict, now: dict):
    """Return (first_difference_or_None, additions)."""
    additions = 0
    for key in pristine:
        if key not in now:
            return f"registry entry {key} disappeared", additions
    additions += len(set(now) - set(pristine))
    if pristine["algorithms"] != now["algorithms"]:
        pa, na = dict((k, v) for k, *v in pristine["algorithms"]), dict((k, v) for k, *v in now["algorithms"])
        for k in pa:
            if na.get(k) != pa[k]:
                return f"algorithms[{k!r}] replaced or removed", additions
        additions += len(set(na) - set(pa))
    for key, pv in pristine.items():
        if key in ("keys", "algorithms"):
            continue
        nv = now[key]
        if pv[0] != nv[0]:
            return f"registry[{key}] changed kind {pv[0]} -> {nv[0]}", additions
        if pv[0] == "list":
            if pv[1] != nv[1]:
                if len(pv[1]) != len(nv[1]):
                    return f"registry[{key}] length {len(pv[1])} -> {len(nv[1])}", additions
                i = next(i for i, (a, b) in enumerate(zip(pv[1], nv[1])) if a != b)
                return f"registry[{key}][{i}] is a different object (reordered or replaced)", additions
            for i, (a, b) in enumerate(zip(pv[2], nv[2])):
                if b < a:
                    return f"registry[{key}][{i}] lost keys ({a} -> {b})", additions
                additions += b > a
        elif pv[0] == "dict":
            pd, nd = pv[1], nv[1]
            for k, v in pd.items():
                w = nd.get(k, None)
                if w is None and k not in nd:
                    return f"registry[{key}][{k!r}] disappeared", additions
                if v != w:
                    if isinstance(v, tuple) and isinstance(w, tuple) and len(v) == 2 and isinstance(v[1], tuple) \
                            and len(w) == 2 and v[0] == w[0] and set(v[1]) <= set(w[1]):
                        additions += 1
                        continue
                    return f"registry[{key}][{k!r}] changed (entry list reordered/replaced or spec replaced)", additions
            additions += len(nd) - len(pd) if len(nd) > len(pd) else 0
        elif pv != nv:
            return f"registry[{key}] changed", additions
    return None, additions


def _canon_leaf(v):
    if isinstance(v, re.Pattern):
        return ["re", v.pattern, v.flags]
    if isinstance(v, (str, int, float, bool)) or v is None:
        return v
    if isinstance(v, (list, tuple)):
        return [_canon_leaf(x) for x in v]
    if _is_map(v):
        return {str(k): _canon_leaf(x) for k, x in v.items()}
    return repr(v)


def deep_view() -> dict:
    """Full content: bank entries, indexes as key -> entry positions, country table with patterns."""
    reg = _reg()
    out: dict = {}
    bank = reg.get("bank")
    pos = {id(e): i for i, e in enumerate(bank)} if _is_seq(bank) else {}
    by_content: dict = {}

    def positions_of(entries) -> list:
        """Positions in the bank list of the given entries: by identity where possible, else of content-equal bank
        entries (the k-th copy of a duplicated content maps to the k-th such position not already taken)."""
        out = []
        taken: set = set()
        for e in entries:
            i = pos.get(id(e))
            if i is None:
                if not by_content and _is_seq(bank):
                    for j, b in enumerate(bank):
                        try:
                            by_content.setdefault(repr(sorted(b.items())), []).append(j)
                        except Exception:  # noqa: BLE001
                            pass
                try:
                    cands = by_content.get(repr(sorted(e.items())), [])
                except Exception:  # noqa: BLE001
                    cands = []
                i = next((c for c in cands if c not in taken), cands[-1] if cands else None)
            if i is not None:
                taken.add(i)
            out.append(i)
        return out

    for name, val in reg.items():
        if _is_seq(val):
            out[repr(name)] = [_canon_leaf(e) for e in val]
        elif _is_map(val):
            d = {}
            for k, v in val.items():
                where = positions_of(v) if _is_seq(v) and v and pos else None
                if where is not None and all(w is not None for w in where):
                    d[repr(k)] = ["@", where]  # index membership and order, whether by the same or by equal entries
                else:
                    d[repr(k)] = _canon_leaf(v)
            out[repr(name)] = d
        else:
            out[repr(name)] = _canon_leaf(val)
    from schwifty import checksum

    try:
        out["algorithms"] = {k: type(v).__qualname__ for k, v in checksum.algorithms.items()}
    except Exception:  # noqa: BLE001
        out["algorithms"] = {}
    return out


def preserved(pristine, now, path: str = ""):
    """Return (first_difference_or_None, additions) under preservation semantics."""
    additions = 0
    if isinstance(pristine, dict):
        if not isinstance(now, dict):
            return f"{path}: dict replaced by {type(now).__name__}", 0
        for k, v in pristine.items():
            if k not in now:
                return f"{path}/{k}: removed", additions
            d, a = preserved(v, now[k], f"{path}/{k}")
            additions += a
            if d:
                return d, additions
        additions += len(now) - len(pristine)
        return None, additions
    if isinstance(pristine, list):
        if not isinstance(now, list):
            return f"{path}: list replaced by {type(now).__name__}", 0
        if len(pristine) != len(now):
            return f"{path}: list length {len(pristine)} -> {len(now)}", 0
        for i, (a, b) in enumerate(zip(pristine, now)):
            if a is b or a == b:
                continue
            d, ad = preserved(a, b, f"{path}[{i}]")
            additions += ad
            if d:
                return d, additions
        return None, additions
    if pristine != now:
        return f"{path}: {pristine!r} -> {now!r}"[:300], 0
    return None, 0


def state_fingerprint() -> tuple:
    """Cheap fingerprint of mutable scratch state, for the reach measure (not an oracle)."""
    from schwifty import checksum

    fp = []
    try:
        algo_items = list(checksum.algorithms.items())
    except Exception:  # noqa: BLE001
        algo_items = []
    for k, a in algo_items:
        r = getattr(a, "remainder", None)
        if r is not None:
            fp.append((k, r))
        d = getattr(a, "__dict__", None)
        if d:
            for name, v in d.items():
                if isinstance(v, (int, str, bool)) and name != "remainder":
                    fp.append((k, name, v))
    try:
        import pycountry

        fp.append(("pycountry_loaded", bool(getattr(pycountry.countries, "_is_loaded", False))))
    except Exception:  # noqa: BLE001
        pass
    return tuple(fp)
