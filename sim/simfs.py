"""In-memory registry storage for C18: simulated directory listing order, read faults, locale.

``SimPath`` is a ``pathlib.PosixPath`` subclass (so the loader's ``isinstance(..., Path)``
assertions hold and ``/``, ``.stem``, ``<`` work unchanged) whose ``glob()``/``iterdir()`` yield the
names of an in-memory directory **in an order chosen by the run PRNG** and whose ``open()`` returns
an in-memory stream produced by the fault injector.  Nothing touches the disk.  ``builtins.open``,
``io.open``, ``os.listdir`` and ``os.scandir`` are wrapped for paths under the fake root so that a
behaviour-preserving refactor of the loader cannot turn into an alarm.
"""

from __future__ import annotations

import builtins
import errno
import fnmatch
import io
import os
import pathlib

ROOT = "/simfs-schwifty-verif"


class SimFS:
    def __init__(self) -> None:
        self.dirs: dict[str, dict[str, bytes]] = {}      # dir path -> {name: content}
        self.order: dict[str, list[str]] = {}            # dir path -> enumeration order
        self.locale = "utf-8"
        self.fault: dict | None = None                    # {"file": name, "dir": d, "kind": ...}
        self.fault_fired: str | None = None
        self.events: list = []
        self.default_encoding_opens = 0

    # -- configuration --------------------------------------------------------------------------
    def set_dir(self, d: str, files: dict[str, bytes], order: list[str]) -> None:
        path = f"{ROOT}/{d}"
        self.dirs[path] = dict(files)
        self.order[path] = list(order)

    def heal(self) -> None:
        self.fault = None
        self.fault_fired = None

    # -- queries --------------------------------------------------------------------------------
    def is_dir(self, path: str) -> bool:
        return path == ROOT or path in self.dirs

    def is_file(self, path: str) -> bool:
        d, _, n = path.rpartition("/")
        return d in self.dirs and n in self.dirs[d]

    def listdir(self, path: str) -> list[str]:
        self.events.append(["listdir", path[len(ROOT):]])
        f = self.fault
        if f is not None and self.fault_fired is None and f["kind"] == "LISTDIR_EIO" and path == f"{ROOT}/{f['dir']}":
            self.fault_fired = "LISTDIR_EIO"
            self.events.append(["fault", "LISTDIR_EIO", f["dir"]])
            raise OSError(errno.EIO, "simulated I/O error while listing the directory", path)
        if path == ROOT:
            return [p[len(ROOT) + 1:] for p in self.dirs]
        if path not in self.dirs:
            raise FileNotFoundError(errno.ENOENT, "No such simulated directory", path)
        return list(self.order[path])

    def read(self, path: str) -> bytes:
        """Content as delivered by the (possibly faulty) storage."""
        d, _, n = path.rpartition("/")
        self.events.append(["open", path[len(ROOT):]])
        if d not in self.dirs or n not in self.dirs[d]:
            raise FileNotFoundError(errno.ENOENT, "No such simulated file", path)
        data = self.dirs[d][n]
        f = self.fault
        if f is not None and self.fault_fired is None and f["dir"] == d[len(ROOT) + 1:] and f["file"] == n:
            kind = f["kind"]
            self.fault_fired = kind
            self.events.append(["fault", kind, n])
            if kind == "EIO":
                raise OSError(errno.EIO, "simulated I/O error", path)
            if kind == "EMFILE":
                raise OSError(errno.EMFILE, "simulated: too many open files", path)
            if kind == "ENOENT":
                raise FileNotFoundError(errno.ENOENT, "simulated: file vanished between listing and open", path)
            if kind == "short":
                cut = max(1, min(len(data) - 2, int(f["frac"] * len(data))))
                return data[:cut]
            if kind == "torn":
                a = max(1, int(f["frac"] * (len(data) - 8)))
                return data[:a] + b"\x00" * min(8, len(data) - a - 1) + data[a + 8:]
            if kind == "badutf8":
                a = max(1, int(f["frac"] * (len(data) - 2)))
                return data[:a] + b"\xff\xfe" + data[a + 2:]
        return data

    @staticmethod
    def _fd_with(data: bytes) -> int:
        """An anonymous in-memory file holding `data` (a real descriptor: fileno(), mmap, os.read all work)."""
        fd = os.memfd_create("simfs")
        view = memoryview(data)
        while view:
            n = os.write(fd, view)
            view = view[n:]
        os.lseek(fd, 0, os.SEEK_SET)
        return fd

    def open_fd(self, path: str) -> int:
        return self._fd_with(self.read(path))

    def open(self, path: str, mode: str = "r", encoding=None, errors=None, newline=None, buffering=-1):
        data = self.read(path)
        if "w" in mode or "a" in mode or "+" in mode or "x" in mode:
            raise PermissionError(errno.EACCES, "simulated storage is read-only", path)
        try:
            raw = _real_open(self._fd_with(data), "rb", closefd=True)
        except (AttributeError, OSError):  # no memfd_create on this platform: plain in-memory streams
            raw = io.BytesIO(data)
        if "b" in mode:
            return raw
        if encoding is None:
            self.default_encoding_opens += 1
            encoding = self.locale
        return io.TextIOWrapper(raw, encoding=encoding, errors=errors, newline=newline)


FS: SimFS | None = None


class SimPath(pathlib.PosixPath):
    def _s(self) -> str:
        return str(self)

    def glob(self, pattern, **kw):
        if pattern.startswith("**/"):
            yield from self.rglob(pattern[3:])
            return
        for n in FS.listdir(self._s()):
            if fnmatch.fnmatchcase(n, pattern):
                yield self / n

    def rglob(self, pattern, **kw):
        for n in FS.listdir(self._s()):
            child = self / n
            if fnmatch.fnmatchcase(n, pattern):
                yield child
            if FS.is_dir(child._s()):
                yield from child.rglob(pattern)

    def iterdir(self):
        for n in FS.listdir(self._s()):
            yield self / n

    def exists(self, **kw) -> bool:
        return FS.is_dir(self._s()) or FS.is_file(self._s())

    def is_dir(self, **kw) -> bool:
        return FS.is_dir(self._s())

    def is_file(self, **kw) -> bool:
        return FS.is_file(self._s())

    def open(self, mode="r", buffering=-1, encoding=None, errors=None, newline=None):
        return FS.open(self._s(), mode, encoding, errors, newline)

    def read_text(self, encoding=None, errors=None):
        with self.open("r", encoding=encoding, errors=errors) as fp:
            return fp.read()

    def read_bytes(self):
        with self.open("rb") as fp:
            return fp.read()

    def resolve(self, strict=False):
        return self

    def absolute(self):
        return self


SIM_PACKAGES = {"schwifty", "simreg"}
ALIASES: list[str] = []  # real package directories whose *_registry sub-directories are served from the simulation
_real_files = None


def sim_files(anchor=None):
    """Replacement for importlib.resources.files: the package under test (and the alias used for
    isolated instances of its registry module) maps to the simulated root; others are untouched."""
    name = getattr(anchor, "__name__", anchor)
    if isinstance(name, str) and name.split(".")[0] in SIM_PACKAGES:
        return SimPath(ROOT)
    return _real_files(anchor)


_installed = False
_real_open = builtins.open
_real_io_open = io.open
_real_listdir = os.listdir
_real_scandir = os.scandir


class _Entry:
    def __init__(self, d: str, n: str) -> None:
        self.name, self.path = n, f"{d}/{n}"

    def is_file(self, **kw):
        return FS.is_file(self.path)

    def is_dir(self, **kw):
        return FS.is_dir(self.path)

    def is_symlink(self):
        return False

    def stat(self, **kw):
        return os.stat(self.path)

    def __fspath__(self):
        return self.path


class _Scan:
    """Stand-in for the iterator os.scandir returns (os.walk calls next() on it, `with` and close() are used too)."""

    def __init__(self, entries) -> None:
        self._it = iter(list(entries))

    def __iter__(self):
        return self

    def __next__(self):
        return next(self._it)

    def __enter__(self):
        return self

    def __exit__(self, *a):
        return False

    def close(self):
        pass


def install(fs: SimFS, patch_resources: bool = True) -> None:
    """Route the storage seam to `fs`.  Idempotent; the wrappers only divert paths under ROOT."""
    global FS, _installed
    FS = fs
    if _installed:
        return
    _installed = True

    def _under(p) -> str | None:
        try:
            s = os.fspath(p)
        except TypeError:
            return None
        if isinstance(s, bytes):
            s = s.decode("utf-8", "replace")
        if not isinstance(s, str):
            return None
        if s == ROOT or s.startswith(ROOT + "/"):
            return s
        # a loader that locates its data through __file__ instead of importlib.resources: the registry
        # directories next to the package source are aliases of the simulated ones
        for alias in ALIASES:
            if s.startswith(alias):
                rest = s[len(alias):].lstrip("/")
                head = rest.split("/", 1)[0]
                if head.endswith("_registry"):
                    return f"{ROOT}/{rest}".rstrip("/")
        return None

    def sim_open(file, mode="r", buffering=-1, encoding=None, errors=None, newline=None, closefd=True, opener=None):
        s = _under(file)
        if s is not None:
            return FS.open(s, mode, encoding, errors, newline)
        return _real_open(file, mode, buffering, encoding, errors, newline, closefd, opener)

    def sim_listdir(path="."):
        s = _under(path)
        if s is not None:
            return FS.listdir(s)
        return _real_listdir(path)

    def sim_scandir(path="."):
        s = _under(path)
        if s is not None:
            return _Scan(_Entry(s, n) for n in FS.listdir(s))
        return _real_scandir(path)

    import stat as _stat

    real_stat, real_lstat, real_access = os.stat, os.lstat, os.access

    def _fake_stat(s):
        if FS.is_dir(s):
            mode, size = _stat.S_IFDIR | 0o555, 0
        elif FS.is_file(s):
            d, _, n = s.rpartition("/")
            mode, size = _stat.S_IFREG | 0o444, len(FS.dirs[d][n])
        else:
            raise FileNotFoundError(errno.ENOENT, "No such simulated file or directory", s)
        ino = int.from_bytes(s.encode("utf-8", "replace")[-6:].rjust(6, b"\0"), "big") ^ (len(s) << 40)
        return os.stat_result((mode, ino, 1, 1, 0, 0, size, 0, 0, 0))

    def sim_stat(path, *a, **k):
        s = _under(path)
        if s is not None:
            return _fake_stat(s)
        return real_stat(path, *a, **k)

    def sim_lstat(path, *a, **k):
        s = _under(path)
        if s is not None:
            return _fake_stat(s)
        return real_lstat(path, *a, **k)

    def sim_access(path, mode, *a, **k):
        s = _under(path)
        if s is not None:
            return (FS.is_dir(s) or FS.is_file(s)) and not (mode & os.W_OK)
        return real_access(path, mode, *a, **k)

    real_os_open = os.open

    def sim_os_open(path, flags, mode=0o777, *, dir_fd=None):
        s = _under(path)
        if s is not None:
            if flags & (os.O_WRONLY | os.O_RDWR | os.O_CREAT | os.O_TRUNC | os.O_APPEND):
                raise PermissionError(errno.EACCES, "simulated storage is read-only", s)
            return FS.open_fd(s)
        return real_os_open(path, flags, mode, dir_fd=dir_fd)

    real_fileio = io.FileIO

    class SimFileIO(real_fileio):
        """io.FileIO that serves paths under the simulated root from an in-memory descriptor."""

        def __init__(self, file, mode="r", closefd=True, opener=None):
            s = _under(file) if not isinstance(file, int) else None
            if s is not None:
                if any(ch in mode for ch in "wax+"):
                    raise PermissionError(errno.EACCES, "simulated storage is read-only", s)
                super().__init__(FS.open_fd(s), mode, closefd=True)
                self._sim_name = s
            else:
                super().__init__(file, mode, closefd, opener)

    SimFileIO.__name__ = SimFileIO.__qualname__ = "FileIO"
    io.FileIO = SimFileIO
    os.open = sim_os_open
    builtins.open = sim_open
    io.open = sim_open
    os.listdir = sim_listdir
    os.scandir = sim_scandir
    os.stat = sim_stat
    os.lstat = sim_lstat
    os.access = sim_access
    if patch_resources:
        global _real_files
        import importlib.resources as ir

        _real_files = ir.files
        ir.files = sim_files
        try:
            import importlib.resources._common as irc  # noqa: PLC2701

            irc.files = sim_files
        except Exception:  # noqa: BLE001
            pass
