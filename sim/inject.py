"""Mid-call abort injection: the library analogue of "crash at an arbitrary point".

An armed injector raises ``SimAbort`` (a BaseException, so no ``except Exception`` /
``except SchwiftyException`` in the library can swallow it) or ``MemoryError`` from the
sys.monitoring LINE callback at the k-th library line of the current call.  The durable state is
the process-wide state; the crash is a call unwound half-way.
"""

from __future__ import annotations

import sys

from . import sched


class SimAbort(BaseException):
    pass


_WITH_LINES: dict = {}


def _with_lines(code) -> dict:
    """line -> offset of the (first) BEFORE_WITH on that line.  CPython attributes the normal-exit clean-up of a
    `with` block (load three Nones, call __exit__) to the line of the `with` statement, so a second LINE event
    for that line fires *after* the block and *before* __exit__ - outside the protected range.  Raising there
    would make every correct `with lock:` leak its lock; no real exception source delivers at that point (no
    allocation, no eval-breaker check), so it is not a fault this simulator injects."""
    got = _WITH_LINES.get(code)
    if got is None:
        import dis

        got = {}
        entry_nops = set()
        after_with = False
        for ins in dis.get_instructions(code):
            if ins.opname in ("BEFORE_WITH", "BEFORE_ASYNC_WITH") and ins.positions and ins.positions.lineno:
                got.setdefault(ins.positions.lineno, ins.offset)
                after_with = True
                continue
            if after_with:
                if ins.opname in ("POP_TOP", "STORE_FAST", "STORE_NAME", "STORE_GLOBAL", "STORE_DEREF", "STORE_ATTR"):
                    continue
                if ins.opname == "NOP":
                    # a bare `try:` as first statement of the with body: a NOP between __enter__ and the protected
                    # range, where no real exception can be delivered either
                    entry_nops.add(ins.offset)
                after_with = False
        # More generally: a NOP (`try:`, `pass`) cannot raise, and the instruction that follows the end of a range
        # protected by the exception table (the normal-path copy of a `finally` body, the clean-up of a `with`) is
        # reached without any allocation or eval-breaker check in between - whatever real exception there could be
        # would have been raised *inside* the range and handled.  Raising at a LINE event that starts there would leak
        # the lock of every hand-written `acquire(); try: ... finally: release()` as well.
        unreal = set(entry_nops)
        for ins in dis.get_instructions(code):
            if ins.opname == "NOP":
                unreal.add(ins.offset)
        try:
            for entry in dis._parse_exception_table(code):
                unreal.add(entry.end)
        except Exception:  # noqa: BLE001 - private helper; without it only the explicit with/NOP rules apply
            pass
        got["_entry_nops"] = unreal
        _WITH_LINES[code] = got
    return got


class AbortInjector:
    def __init__(self, pkg_len: int) -> None:
        self.pkg_len = pkg_len
        self.count = 0
        self.k = 0
        self.kind = ""
        self.fired: str | None = None

    def arm(self, k: int, kind: str) -> None:
        self.count = 0
        self.k = k
        self.kind = kind
        self.fired = None
        sched.HOOK = self._hook

    def disarm(self) -> None:
        sched.HOOK = None

    def _hook(self, code, where, kind) -> None:
        if kind != "line":
            return
        self.count += 1
        if self.count == self.k and self.fired is None:
            wl = _with_lines(code)
            lasti = sys._getframe(2).f_lasti
            if (where in wl and lasti > wl[where]) or lasti in wl["_entry_nops"]:
                self.k += 1  # the clean-up of a `with` block: not an injection point, take the next line instead
                return
            self.fired = f"{code.co_filename[self.pkg_len:]}:{code.co_name}:L{where}"
            if self.kind == "MemoryError":
                raise MemoryError("simulated allocation failure")
            raise SimAbort(self.fired)


class LineCounter:
    """Counts LINE events inside the package (to place aborts uniformly over a call)."""

    def __init__(self) -> None:
        self.count = 0

    def __enter__(self):
        self.count = 0
        sched.HOOK = self._hook
        return self

    def __exit__(self, *exc) -> None:
        sched.HOOK = None

    def _hook(self, code, where, kind) -> None:
        if kind == "line":
            self.count += 1
