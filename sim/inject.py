"""Mid-call abort injection: the library analogue of "crash at an arbitrary point".

An armed injector raises ``SimAbort`` (a BaseException, so no ``except Exception`` /
``except SchwiftyException`` in the library can swallow it) or ``MemoryError`` from the
sys.monitoring LINE callback at the k-th library line of the current call.  The durable state is
the process-wide state; the crash is a call unwound half-way.
"""

from __future__ import annotations

from . import sched


class SimAbort(BaseException):
    pass


class AbortInjector:
    def __init__(self, pkg_len: int) -> None:
        self.pkg_len = pkg_len
        self.count = 0
        self.k = 0
        self.kind = ""
        self.fired: str | None = None

    def arm(self, k: int, kind: str) -> None:
        self.count = 0
        self.k = k
        self.kind = kind
        self.fired = None
        sched.HOOK = self._hook

    def disarm(self) -> None:
        sched.HOOK = None

    def _hook(self, code, where, kind) -> None:
        if kind != "line":
            return
        self.count += 1
        if self.count == self.k and self.fired is None:
            self.fired = f"{code.co_filename[self.pkg_len:]}:{code.co_name}:L{where}"
            if self.kind == "MemoryError":
                raise MemoryError("simulated allocation failure")
            raise SimAbort(self.fired)


class LineCounter:
    """Counts LINE events inside the package (to place aborts uniformly over a call)."""

    def __init__(self) -> None:
        self.count = 0

    def __enter__(self):
        self.count = 0
        sched.HOOK = self._hook
        return self

    def __exit__(self, *exc) -> None:
        sched.HOOK = None

    def _hook(self, code, where, kind) -> None:
        if kind == "line":
            self.count += 1
