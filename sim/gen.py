"""Seeded generators for ops (shared by C14 and C15).  Every choice comes from the run PRNG."""

from __future__ import annotations

FAMILIES = ["de_algo", "de_iban", "algo", "natl_iban", "parse", "odd", "generate", "random", "bic",
            "lookup", "from_bban", "bban"]


def _pick(rng, seq):
    return seq[rng.randrange(len(seq))]


def swarm_weights(rng) -> dict[str, float]:
    """Per-run weight vector: some runs are all-German-methods, some all-lookups, most mixed."""
    style = rng.randrange(6)
    if style == 0:
        on = {"de_algo", "de_iban"}
    elif style == 1:
        on = {"lookup", "bic", "parse"}
    elif style == 2:
        on = {"odd", "parse", "natl_iban", "algo"}
    else:
        on = {f for f in FAMILIES if rng.random() < 0.7} or {"parse"}
    return {f: (1.0 + 3 * rng.random() if f in on else 0.0) for f in FAMILIES}


def _weighted_family(rng, weights):
    total = sum(weights.values())
    x = rng.random() * total
    for f in FAMILIES:
        x -= weights[f]
        if x < 0:
            return f
    return FAMILIES[-1]


def gen_de_algo(rng, pool, key=None, cls_not=None):
    key = key or _pick(rng, sorted(pool["de_methods"]))
    accounts = pool["de_methods"][key]["accounts"]
    cands = [a for a in accounts if a[1] != cls_not] or accounts
    acct, cls = _pick(rng, cands)
    if rng.random() < 0.75:
        return ["algo_validate", key, [acct], ""], key, cls
    return ["algo_compute", key, [acct]], key, cls


def gen_de_iban(rng, pool, key=None, cls_not=None):
    key = key or _pick(rng, sorted(pool["de_ibans"]))
    if key not in pool["de_ibans"] or not pool["de_ibans"][key]:
        return gen_de_algo(rng, pool, key, cls_not)
    texts = pool["de_ibans"][key]
    cands = [t for t in texts if t[1] != cls_not] or texts
    text, cls = _pick(rng, cands)
    r = rng.randrange(4)
    if r == 0:
        return ["iban", text, {"validate_bban": True}], key, cls
    if r == 1:
        return ["iban_validate", text, True], key, cls
    if r == 2:
        return ["iban_checksum", text], key, cls
    return ["iban", text, {"allow_invalid": False, "validate_bban": True}], key, cls


def gen_op(rng, pool, weights=None):
    """Return (op, target).  `target` names the process-wide object the op is routed to (or None)."""
    fam = _weighted_family(rng, weights) if weights else _pick(rng, FAMILIES)
    if fam == "de_algo":
        op, key, _ = gen_de_algo(rng, pool)
        return op, key
    if fam == "de_iban":
        op, key, _ = gen_de_iban(rng, pool)
        return op, key
    if fam == "algo":
        key = _pick(rng, sorted(pool["algos"]))
        comps, expected = _pick(rng, pool["algos"][key])
        if rng.random() < 0.6:
            return ["algo_validate", key, comps, expected], key
        return ["algo_compute", key, comps], key
    if fam == "natl_iban":
        keys = sorted(k for k, v in pool["natl_ibans"].items() if v)
        key = _pick(rng, keys)
        text, _ = _pick(rng, pool["natl_ibans"][key])
        if rng.random() < 0.5:
            return ["iban", text, {"validate_bban": True}], key
        return ["iban_checksum", text], key
    if fam == "parse":
        cc = _pick(rng, pool["countries"])
        texts = pool["valid_ibans"][cc]
        if not texts:
            return ["iban_is_valid", "XX00"], None
        text = _pick(rng, texts)
        r = rng.randrange(5)
        if r == 0:
            return ["iban", text, {}], None
        if r == 1:
            return ["iban", text, {"validate_bban": bool(rng.randrange(2))}], None
        if r == 2:
            return ["iban_props", text], None
        if r == 3:
            return ["iban_is_valid", text], None
        return ["iban_validate", text, bool(rng.randrange(2))], None
    if fam == "odd":
        _, text = _pick(rng, pool["odd_ibans"])
        r = rng.randrange(4)
        if r == 0:
            return ["iban", text, {}], None
        if r == 1:
            return ["iban", text, {"allow_invalid": True}], None
        if r == 2:
            return ["iban_props", text], None
        return ["iban_is_valid", text], None
    if fam == "generate":
        ccs = [c for c in pool["countries_with_positions"] if pool["components"].get(c)]
        cc = _pick(rng, ccs)
        bank, branch, acct, _ = _pick(rng, pool["components"][cc])
        r = rng.randrange(4)
        if r == 0:
            acct = acct.lstrip("0") or "0"
        if r == 1:
            return ["from_components", cc, {"bank_code": bank, "branch_code": branch,
                                            "account_code": acct}], None
        if r == 2:
            which = rng.randrange(3)  # each "exceeds maximum size" branch
            if which == 0:
                return ["generate", cc, bank + "9" * 12, acct, branch], None
            if which == 1:
                return ["generate", cc, bank, acct + "7" * 30, branch], None
            return ["generate", cc, bank, acct, branch + "12345678"], None
        return ["generate", cc, bank, acct, branch], None
    if fam == "random":
        if pool.get("retry_cases") and rng.random() < 0.2:
            cc, seed, use_registry, pinned = _pick(rng, pool["retry_cases"])  # an internal attempt fails and is retried
            return ["iban_random" if rng.random() < 0.7 else "bban_random", cc, seed, use_registry, pinned], None
        if rng.random() < 0.5:
            cc, seed, use_registry, pinned = _pick(rng, pool["random_cases"])
        else:
            cc = _pick(rng, pool["countries"] + ["", ""])
            seed, use_registry, pinned = rng.randrange(50), bool(rng.randrange(2)), {}
        if cc and not pinned and rng.random() < 0.35 and pool["components"].get(cc):
            bank, branch, acct, _ = _pick(rng, pool["components"][cc])
            for name, value in (("bank_code", bank), ("branch_code", branch), ("account_code", acct)):
                if value and rng.random() < 0.5:
                    pinned = dict(pinned, **{name: value})
        kind = "iban_random" if rng.random() < 0.7 else "bban_random"
        return [kind, cc, seed, use_registry, pinned], None
    if fam == "bic":
        b = pool["bics"]
        r = rng.randrange(4)
        if r == 3:
            text = _pick(rng, b["by_country"][_pick(rng, pool["countries"])])
        else:
            text = _pick(rng, b["registry"] if r == 0 else b["valid"] if r == 1 else b["odd"])
        r = rng.randrange(4)
        if r == 0:
            return ["bic", text, {}], None
        if r == 1:
            return ["bic", text, {"enforce_swift_compliance": True}], None
        if r == 2:
            return ["bic_props", text], None
        return ["bic_validate", text, bool(rng.randrange(2))], None
    if fam == "lookup":
        bk = pool["bank_keys"]
        r = rng.randrange(10)
        if r < 3 and pool["lookup_ibans"]:
            return ["iban_props", _pick(rng, pool["lookup_ibans"])], "bank_index"
        group = bk["ordersens"] if r < 6 else bk["multi"] if r < 8 else bk["single"] if r < 9 else bk["missing"]
        if not group:
            group = bk["missing"]
        cc, code = _pick(rng, group)
        if rng.random() < 0.5:
            return ["bic_candidates", cc, code], "bank_index"
        return ["bic_from_bank_code", cc, code], "bank_index"
    if fam == "from_bban":
        ccs = [c for c in pool["countries"] if pool["components"].get(c)]
        cc = _pick(rng, ccs)
        bban = _pick(rng, pool["components"][cc])[3]
        return ["from_bban", cc, bban, {"validate_bban": bool(rng.randrange(2))}], None
    if fam == "bban":
        ccs = [c for c in pool["countries"] if pool["components"].get(c)]
        cc = _pick(rng, ccs)
        bban = _pick(rng, pool["components"][cc])[3]
        if rng.random() < 0.5:
            return ["bban_props", cc, bban], None
        return ["bban_checksum", cc, bban], None
    raise AssertionError(fam)


def gen_conflict_pair(rng, pool):
    """Two ops routed to the same DE method object with different account classes."""
    key = _pick(rng, sorted(pool["de_methods"]))
    via_iban = key in pool["de_ibans"] and rng.random() < 0.4
    g = gen_de_iban if via_iban else gen_de_algo
    op_a, _, cls_a = g(rng, pool, key)
    g2 = gen_de_iban if (key in pool["de_ibans"] and rng.random() < 0.4) else gen_de_algo
    op_b, _, _ = g2(rng, pool, key, cls_not=cls_a)
    return (op_a, key), (op_b, key)


def ops_has_ref(op) -> bool:
    from .ops import refs_of

    return bool(refs_of(op))
