"""Evidence writer: measured counters only; validated before writing."""

from __future__ import annotations

import json
import os

from .core import VERIF_DIR, HarnessError

SCHEMA = "/root/.vp/EVIDENCE.schema.json"


def _structural_check(doc: dict) -> None:
    for k in ("property_id", "tier", "seed", "level", "coverage", "wall_s"):
        if k not in doc:
            raise HarnessError(f"evidence lacks {k}")
    if doc["tier"] not in ("quick", "thorough"):
        raise HarnessError("evidence tier")
    if not isinstance(doc["seed"], int):
        raise HarnessError("evidence seed must be int")
    cov = doc["coverage"]
    if doc["level"] in ("exploration", "fault_enumeration"):
        for k in ("evaluations", "distinct_nontrivial", "rule", "samples"):
            if k not in cov:
                raise HarnessError(f"evidence coverage lacks {k}")
        if not (isinstance(cov["evaluations"], int) and cov["evaluations"] >= 1):
            raise HarnessError("evidence evaluations")
        if not (isinstance(cov["distinct_nontrivial"], int) and cov["distinct_nontrivial"] >= 2):
            raise HarnessError("evidence distinct_nontrivial < 2")
        if not (isinstance(cov["samples"], list) and cov["samples"]):
            raise HarnessError("evidence samples")


def write(prop: str, tier: str, seed: int, coverage: dict, wall_s: float, violations: int,
          assumptions: list[str], level: str = "exploration") -> str:
    doc = {
        "property_id": prop,
        "tier": tier,
        "seed": int(seed),
        "level": level,
        "coverage": coverage,
        "assumptions": assumptions,
        "wall_s": round(float(wall_s), 3),
        "violations": int(violations),
    }
    _structural_check(doc)
    try:
        import jsonschema  # optional

        if os.path.exists(SCHEMA):
            with open(SCHEMA, encoding="utf-8") as fp:
                jsonschema.validate(doc, json.load(fp))
    except ImportError:
        pass
    d = os.path.join(VERIF_DIR, "evidence")
    os.makedirs(d, exist_ok=True)
    path = os.path.join(d, f"{prop}.json")
    tmp = f"{path}.{os.getpid()}.tmp"
    with open(tmp, "w", encoding="utf-8") as fp:
        json.dump(doc, fp, indent=1, sort_keys=True, ensure_ascii=True)
        fp.write("\n")
    os.replace(tmp, path)
    return path
