"""Deterministic simulation machinery for mdomke/schwifty (see /verif/DESIGN.md)."""
