"""Deterministic thread scheduler: real threads, simulated choice of who runs.

Exactly one simulated thread holds the *baton* at any time; the others are parked on private raw
``_thread`` locks.  Every LINE (or INSTRUCTION) and PY_RETURN / PY_YIELD / PY_UNWIND event of
``sys.monitoring`` (uniform from the first execution of every code object, unlike ``sys.settrace``
opcode events on 3.12) in code that lives inside the package under test is a pre-emption point at which the policy (seeded PRNG or a
recorded script) names the thread that continues.  Locks the package creates are ``SimLock``s: a
simulated thread that finds one taken is marked blocked and yields instead of blocking the OS
thread; no runnable thread while some are alive is a deadlock.

The executed schedule is recorded as segments ``[tid, yield_points, reason]`` with reason
``"p"`` (pre-empted at that yield point), ``"f"`` (ran until it finished) or ``"b"`` (ran until it
blocked on a lock); feeding the list back through ``ScriptPolicy`` reproduces the run exactly.
"""

from __future__ import annotations

import _thread
import os
import sys
import threading

from .core import EventLog

_raw_allocate = _thread.allocate_lock
_get_ident = _thread.get_ident

ACTIVE: "Scheduler | None" = None
MON_TOOL = 3
_PKG_DIR: str | None = None
_seam_installed = False


# ---------------------------------------------------------------------------------------------
# lock seam
# ---------------------------------------------------------------------------------------------


class SimLock:
    """Drop-in for ``threading.Lock`` whose contention is decided by the scheduler."""

    def __init__(self) -> None:
        self._real = _raw_allocate()

    def acquire(self, blocking: bool = True, timeout: float = -1) -> bool:
        sched = ACTIVE
        tid = sched.tid_of_current() if sched is not None else None
        if tid is None:
            if timeout is None or timeout < 0:
                return self._real.acquire(blocking)
            return self._real.acquire(blocking, timeout)
        timed = blocking and timeout is not None and timeout >= 0
        while True:
            if self._real.acquire(False):
                sched.note_lock(tid, "acquire")
                return True
            if not blocking:
                return False
            # a timed wait gives up only when nothing else in the simulation can run any more (simulated time
            # advances only when the system is idle) - then it returns False exactly like a real timed acquire
            if not sched.block(tid, self, timed) and timed:
                return False

    def release(self) -> None:
        self._real.release()
        sched = ACTIVE
        if sched is not None:
            sched.unblock(self)

    __enter__ = acquire

    def __exit__(self, *exc) -> None:
        self.release()

    def locked(self) -> bool:
        return self._real.locked()

    def _at_fork_reinit(self) -> None:
        self._real = _raw_allocate()

    def __repr__(self) -> str:
        return f"<SimLock {'locked' if self.locked() else 'unlocked'} at {id(self):#x}>"


class SimRLock(threading._RLock):  # the pure-Python RLock, built on SimLock
    def __init__(self) -> None:
        super().__init__()
        self._block = SimLock()


def _created_by_package(limit: int = 12) -> bool:
    if _PKG_DIR is None:
        return False
    f = sys._getframe(2)
    while f is not None and limit:
        if f.f_code.co_filename.startswith(_PKG_DIR):
            return True
        f = f.f_back
        limit -= 1
    return False


_orig_Lock = threading.Lock
_orig_RLock = threading.RLock
_orig_allocate = threading._allocate_lock


def _lock_factory():
    return SimLock() if _created_by_package() else _raw_allocate()


def _rlock_factory(*args, **kwargs):
    return SimRLock() if _created_by_package() else _orig_RLock(*args, **kwargs)


def install_lock_seam(pkg_dir: str) -> None:
    """Must run before the package under test is imported.  Locks created (directly, or through
    ``threading.Condition/Event/Semaphore``) by code of the package become SimLocks; every other
    lock in the process stays real."""
    global _PKG_DIR, _seam_installed
    _PKG_DIR = pkg_dir
    if _seam_installed:
        return
    threading.Lock = _lock_factory
    threading.RLock = _rlock_factory
    threading._allocate_lock = _lock_factory
    _seam_installed = True


# ---------------------------------------------------------------------------------------------
# instrumentation: sys.monitoring *local* events on every code object of the package
# ---------------------------------------------------------------------------------------------
# Local events are uniform from the first execution of a code object (sys.settrace opcode events on
# 3.12 are not) and cost nothing outside the package.  They are armed once per process tree (the
# state survives fork); the callbacks are inert unless a Scheduler / AbortInjector is active.

_instrumented: set = set()
_seen_modules = -1
_callbacks_registered = False
_import_code = None
HOOK = None  # optional callable(code, where, kind) used by single-threaded injectors (C15)


def _package_codes(pkg_dir: str) -> list:
    import types

    seen: set = set()
    out: list = []

    def add_code(code) -> None:
        if id(code) in seen:
            return
        seen.add(id(code))
        if code.co_filename.startswith(pkg_dir):
            out.append(code)
        for c in code.co_consts:
            if isinstance(c, types.CodeType):
                add_code(c)

    def visit(obj, depth: int = 0) -> None:
        if depth > 4 or id(obj) in seen:
            return
        if isinstance(obj, types.FunctionType):
            add_code(obj.__code__)
            return
        if isinstance(obj, (staticmethod, classmethod)):
            visit(obj.__func__, depth + 1)
            return
        if isinstance(obj, property):
            for f in (obj.fget, obj.fset, obj.fdel):
                if f is not None:
                    visit(f, depth + 1)
            return
        if isinstance(obj, type):
            seen.add(id(obj))
            for v in list(vars(obj).values()):
                visit(v, depth + 1)
            return
        func = getattr(obj, "__wrapped__", None) or getattr(obj, "func", None)
        if isinstance(func, types.FunctionType):
            visit(func, depth + 1)

    for name, mod in sorted(sys.modules.items()):
        f = getattr(mod, "__file__", None)
        if not f or not f.startswith(pkg_dir):
            continue
        for v in list(vars(mod).values()):
            visit(v)
    # functions reachable only through containers, instances or closures (lambdas in module-level tables,
    # singledispatch handlers, decorator closures): every live function object the collector knows about
    import gc

    for obj in gc.get_objects():
        if isinstance(obj, types.FunctionType):
            try:
                add_code(obj.__code__)
            except Exception:  # noqa: BLE001
                pass
    return out


def _on_line(code, line):
    s = ACTIVE
    if s is not None:
        if not s.opcode:
            tid = s.ident2tid.get(_get_ident())
            if tid is not None:
                s.yield_point(tid, code, line, "line")
    elif HOOK is not None:
        HOOK(code, line, "line")
    return None


def _on_instruction(code, offset):
    s = ACTIVE
    if s is not None and s.opcode:
        tid = s.ident2tid.get(_get_ident())
        if tid is not None:
            s.yield_point(tid, code, offset, "opcode")
    return None


def _on_return(code, offset, retval):
    s = ACTIVE
    if code is _import_code:
        if s is not None:
            tid = s.ident2tid.get(_get_ident())
            if tid is not None and s.import_depth[tid] > 0:
                s.import_depth[tid] -= 1
                if s.import_depth[tid] == 0:
                    instrument_package(s.pkg_dir, rescan=True)  # code of a lazily imported module
        return None
    if s is not None:
        tid = s.ident2tid.get(_get_ident())
        if tid is not None:
            s.yield_point(tid, code, offset, "return")
    elif HOOK is not None:
        HOOK(code, offset, "return")
    return None


def _on_unwind(code, offset, exc):  # global event; cannot be disabled
    s = ACTIVE
    if s is None:
        return None
    if code is _import_code:
        tid = s.ident2tid.get(_get_ident())
        if tid is not None and s.import_depth[tid] > 0:
            s.import_depth[tid] -= 1
    elif code.co_filename.startswith(s.pkg_dir):
        tid = s.ident2tid.get(_get_ident())
        if tid is not None:
            s.yield_point(tid, code, offset, "unwind")
    return None


def _on_start(code, offset):
    s = ACTIVE
    if s is not None and code is _import_code:
        tid = s.ident2tid.get(_get_ident())
        if tid is not None:
            s.import_depth[tid] += 1
    return None


def instrument_package(pkg_dir: str, rescan: bool = False) -> int:
    """Arm local events on every not-yet-instrumented code object of the package."""
    global _callbacks_registered, _import_code, _seen_modules
    nmods = sum(1 for k in sys.modules if k.startswith("schwifty"))
    if _callbacks_registered and _instrumented and not rescan and nmods == _seen_modules:
        return 0
    _seen_modules = nmods  # a module imported lazily outside a simulated thread (warm-up, solo run) is picked up too
    mon = sys.monitoring
    ev = mon.events
    if not _callbacks_registered:
        if mon.get_tool(MON_TOOL) is None:
            mon.use_tool_id(MON_TOOL, "schwifty-sim")
        mon.register_callback(MON_TOOL, ev.LINE, _on_line)
        mon.register_callback(MON_TOOL, ev.INSTRUCTION, _on_instruction)
        mon.register_callback(MON_TOOL, ev.PY_RETURN, _on_return)
        mon.register_callback(MON_TOOL, ev.PY_YIELD, _on_return)
        mon.register_callback(MON_TOOL, ev.PY_UNWIND, _on_unwind)
        mon.register_callback(MON_TOOL, ev.PY_START, _on_start)
        mon.set_events(MON_TOOL, ev.PY_UNWIND)
        import importlib._bootstrap as _ib

        _import_code = _ib._find_and_load.__code__
        mon.set_local_events(MON_TOOL, _import_code, ev.PY_START | ev.PY_RETURN)
        _callbacks_registered = True
    n = 0
    wanted = ev.LINE | ev.PY_RETURN | ev.PY_YIELD
    if ACTIVE is not None and ACTIVE.opcode:
        wanted |= ev.INSTRUCTION  # found in the middle of a bytecode-granularity run
    for code in _package_codes(pkg_dir):
        if code not in _instrumented:
            mon.set_local_events(MON_TOOL, code, wanted)
            _instrumented.add(code)
            n += 1
    return n


_events_off = False


def pause_events() -> None:
    """Beyond the step cap nothing is pre-empted any more: stop paying for the callbacks."""
    global _events_off
    mon = sys.monitoring
    for code in _instrumented:
        mon.set_local_events(MON_TOOL, code, 0)
    _events_off = True


def resume_events() -> None:
    global _events_off
    if _events_off:
        mon = sys.monitoring
        ev = mon.events
        for code in _instrumented:
            mon.set_local_events(MON_TOOL, code, ev.LINE | ev.PY_RETURN | ev.PY_YIELD)
        _events_off = False


def set_opcode_events(on: bool) -> None:
    mon = sys.monitoring
    ev = mon.events
    base = ev.LINE | ev.PY_RETURN | ev.PY_YIELD
    for code in _instrumented:
        mon.set_local_events(MON_TOOL, code, base | ev.INSTRUCTION if on else base)


# ---------------------------------------------------------------------------------------------
# policies
# ---------------------------------------------------------------------------------------------


class RandPolicy:
    """Switch with probability p at every pre-emption point."""

    def __init__(self, rng, p: float) -> None:
        self.rng, self.p = rng, p

    def pick(self, sched, cands, why):
        return cands[self.rng.randrange(len(cands))] if len(cands) > 1 else cands[0]

    def choose(self, sched, tid):
        if self.rng.random() < self.p:
            others = [t for t in sched.runnable() if t != tid]
            if others:
                return others[self.rng.randrange(len(others))]
        return tid


class PCTPolicy:
    """Probabilistic concurrency testing: random priorities, `changes` priority-change points."""

    def __init__(self, rng, nthreads: int, changes: int, est_steps: int) -> None:
        prios = list(range(changes + 1, changes + 1 + nthreads))
        rng.shuffle(prios)
        self.prio = prios
        est = max(2, est_steps)
        self.points = {}
        for i in range(changes):
            self.points[rng.randrange(1, est + 1)] = changes - i  # new (lower) priority values

    def _best(self, cands):
        return max(cands, key=lambda t: self.prio[t])

    def pick(self, sched, cands, why):
        return self._best(cands)

    def choose(self, sched, tid):
        newp = self.points.get(sched.steps)
        if newp is not None:
            self.prio[tid] = newp
        return self._best(sched.runnable())


class ScriptPolicy:
    """Replay of a recorded (possibly minimised, hence possibly inconsistent) schedule.

    If the script names a finished/blocked thread or runs out, the lowest runnable tid continues."""

    def __init__(self, segments) -> None:
        self.segs = [list(s) for s in segments]
        self.i = 0

    def _want(self, cands):
        if self.i < len(self.segs) and self.segs[self.i][0] in cands:
            return self.segs[self.i][0]
        return min(cands)

    def pick(self, sched, cands, why):
        if why != "start":
            self.i += 1
        return self._want(cands)

    def choose(self, sched, tid):
        if self.i >= len(self.segs):
            return tid
        seg = self.segs[self.i]
        if seg[0] != tid:
            # inconsistent script: stay with the running thread until it ends its turn
            return tid
        if seg[2] == "p" and sched.seg[1] >= seg[1]:
            self.i += 1
            nxt = self._want(sched.runnable())
            return nxt
        return tid


def make_policy(spec, rng, nthreads: int, est_steps: int):
    kind = spec[0]
    if kind == "rand":
        return RandPolicy(rng, spec[1])
    if kind == "pct":
        return PCTPolicy(rng, nthreads, spec[1], est_steps)
    if kind == "script":
        return ScriptPolicy(spec[1])
    raise ValueError(spec)


# ---------------------------------------------------------------------------------------------
# scheduler
# ---------------------------------------------------------------------------------------------


class Scheduler:
    def __init__(self, nthreads: int, policy, pkg_dir: str, granularity: str = "line",
                 max_steps: int = 20000, keep_events: bool = False) -> None:
        self.n = nthreads
        self.policy = policy
        self.pkg_dir = pkg_dir
        self.pkg_len = len(pkg_dir)
        self.opcode = granularity == "opcode"
        self.max_steps = max_steps
        self.gates = [_raw_allocate() for _ in range(nthreads)]
        for g in self.gates:
            g.acquire()
        self.done_gate = _raw_allocate()
        self.done_gate.acquire()
        self.status = ["ready"] * nthreads
        self.blocked_on: list = [None] * nthreads
        self.timed = [False] * nthreads
        self.timeout_fired = [False] * nthreads
        self.timeouts = 0
        self.ident2tid: dict[int, int] = {}
        self.current: int | None = None
        self.steps = 0
        self.seg: list = [None, 0, "f"]
        self.schedule: list[list] = []
        self.log = EventLog(keep=keep_events)
        self.switch_log = EventLog(keep=False)
        self.switches = 0
        self.conflict_switches = 0
        self.switch_sites: dict[str, int] = {}
        self.deadlock: dict | None = None
        self.capped = False
        self.import_depth = [0] * nthreads
        self.cur_target: list = [None] * nthreads
        self.next_target: list = [None] * nthreads
        self.in_op = [False] * nthreads
        self.lock_acquires = 0
        self.lock_blocks = 0
        self.errors: list[str] = []
        self.last_site = ""

    # -- bookkeeping --------------------------------------------------------------------------
    def tid_of_current(self):
        return self.ident2tid.get(_get_ident())

    def runnable(self):
        return [t for t in range(self.n) if self.status[t] == "ready"]

    def _target_of(self, t):
        return self.cur_target[t] if self.in_op[t] else self.next_target[t]

    def _close_segment(self, reason: str) -> None:
        self.seg[2] = reason
        self.schedule.append(self.seg)

    def _hand_over(self, frm: int | None, to: int, reason: str, park: bool) -> None:
        """Give the baton to `to`; optionally park `frm` until it is scheduled again."""
        self._close_segment(reason)
        self.switches += 1
        site = self.last_site
        self.switch_log.add(frm, to, reason, site)
        self.log.add("switch", frm, to, reason)
        if reason == "p":
            self.switch_sites[site] = self.switch_sites.get(site, 0) + 1
            if frm is not None:
                a, b = self._target_of(frm), self._target_of(to)
                if a is not None and a == b:
                    self.conflict_switches += 1
        self.seg = [to, 0, "f"]
        self.current = to
        self.gates[to].release()
        if park and frm is not None:
            self.gates[frm].acquire()

    # -- called from simulated threads ----------------------------------------------------------
    def yield_point(self, tid: int, code, where: int, kind: str) -> None:
        """`where` is a line number for line events and a bytecode offset for every other kind."""
        if self.import_depth[tid]:
            return
        self.steps += 1
        if self.capped:  # beyond the step cap: no more pre-emption, keep the callback cheap
            return
        self.seg[1] += 1
        if kind == "line":
            site = f"{code.co_filename[self.pkg_len:]}:{code.co_name}:L{where}"
        else:
            site = f"{code.co_filename[self.pkg_len:]}:{code.co_name}:{kind}@{where}"
        self.last_site = site
        self.log.add(tid, site)
        if self.steps > self.max_steps:
            self.capped = True
            pause_events()
            return
        nxt = self.policy.choose(self, tid)
        if nxt != tid:
            self._hand_over(tid, nxt, "p", park=True)

    def note_lock(self, tid: int, what: str) -> None:
        self.lock_acquires += 1
        self.log.add(tid, "lock", what)

    def _fire_timeout(self):
        """No thread is runnable: let the lowest-numbered *timed* waiter time out (None if there is none)."""
        for t in range(self.n):
            if self.status[t] == "blocked" and self.timed[t]:
                self.status[t] = "ready"
                self.blocked_on[t] = None
                self.timeout_fired[t] = True
                self.timeouts += 1
                self.log.add(t, "lock", "timeout")
                return t
        return None

    def block(self, tid: int, lock, timed: bool = False) -> bool:
        """Park `tid` until the lock is released (returns True: retry) or its timed wait expires (False)."""
        self.lock_blocks += 1
        self.status[tid] = "blocked"
        self.blocked_on[tid] = lock
        self.timed[tid] = timed
        self.timeout_fired[tid] = False
        self.log.add(tid, "lock", "blocked")
        cands = self.runnable()
        if not cands:
            t = self._fire_timeout()
            if t is None:
                self._declare_deadlock()
                self.gates[tid].acquire()  # parked for good; the child process exits underneath us
                return True
            if t == tid:
                return False
            cands = [t]
        nxt = self.policy.pick(self, cands, "block")
        self._hand_over(tid, nxt, "b", park=True)
        return not self.timeout_fired[tid]

    def unblock(self, lock) -> None:
        for t in range(self.n):
            if self.status[t] == "blocked" and self.blocked_on[t] is lock:
                self.status[t] = "ready"
                self.blocked_on[t] = None
                self.timeout_fired[t] = False

    def _declare_deadlock(self) -> None:
        self.deadlock = {
            "status": list(self.status),
            "waiting": [t for t in range(self.n) if self.status[t] == "blocked"],
            "site": self.last_site,
        }
        self.log.add("deadlock")
        self._close_segment("b")
        self.done_gate.release()

    def _finish(self, tid: int) -> None:
        self.status[tid] = "done"
        self.log.add(tid, "done")
        cands = self.runnable()
        if cands:
            nxt = self.policy.pick(self, cands, "finish")
            self._hand_over(tid, nxt, "f", park=False)
            return
        if any(s == "blocked" for s in self.status):
            t = self._fire_timeout()
            if t is not None:
                self._hand_over(tid, t, "f", park=False)
                return
            self._declare_deadlock()
            return
        self._close_segment("f")
        self.done_gate.release()

    # -- tracing --------------------------------------------------------------------------------
    def _install_monitoring(self) -> None:
        instrument_package(self.pkg_dir)
        resume_events()
        if self.opcode:
            set_opcode_events(True)

    def _remove_monitoring(self) -> None:
        if self.opcode:
            set_opcode_events(False)

    def _thread_main(self, tid: int, fn) -> None:
        self.ident2tid[_get_ident()] = tid
        self.gates[tid].acquire()
        try:
            fn(tid)
        except BaseException as e:  # noqa: BLE001 - harness bug; surfaced as HARNESS-ERROR by caller
            self.errors.append(f"thread {tid}: {type(e).__name__}: {e}")
        finally:
            self.ident2tid.pop(_get_ident(), None)
            self._finish(tid)

    # -- driver (main thread) -------------------------------------------------------------------
    def run(self, fn, watchdog: float = 30.0) -> bool:
        """Run ``fn(tid)`` in every simulated thread.  Returns False if the watchdog expired."""
        global ACTIVE
        threads = [threading.Thread(target=self._thread_main, args=(t, fn), daemon=True)
                   for t in range(self.n)]
        ACTIVE = self
        self._install_monitoring()
        try:
            for th in threads:
                th.start()
            first = self.policy.pick(self, self.runnable(), "start")
            self.seg = [first, 0, "f"]
            self.current = first
            self.log.add("start", first)
            self.gates[first].release()
            ok = self.done_gate.acquire(True, watchdog)
            if ok and self.deadlock is None:
                for th in threads:
                    th.join(watchdog)
            return ok
        finally:
            self._remove_monitoring()
            ACTIVE = None
