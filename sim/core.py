"""Seed derivation, tree loading, event-log digests, exit-code discipline, known findings.

One integer (VERIF_SEED) decides everything: run i of property P uses
``run_seed(VERIF_SEED, P, i)`` and every choice inside that run is drawn from a single
``random.Random(run_seed)`` owned by the simulator.  Nothing in here reads a clock or draws from a
PRNG while logging.
"""

from __future__ import annotations

import hashlib
import json
import os
import sys
import traceback

VERIF_DIR = os.path.dirname(os.path.dirname(os.path.abspath(__file__)))
HASHSEED = os.environ.get("VERIF_HASHSEED", "0")  # harness hash seed; the determinism self-test varies it
ENGINE_VERSION = 1

EXIT_OK = 0
EXIT_VIOLATION = 1
EXIT_HARNESS = 2


class HarnessError(Exception):
    """The simulator itself misbehaved (watchdog, non-reproducible anomaly, seam bypassed)."""


def reexec_with_hashseed(expected: str = HASHSEED) -> None:
    """Re-exec the current interpreter so that set/dict-of-str iteration order is fixed."""
    if os.environ.get("PYTHONHASHSEED") != expected:
        env = dict(os.environ, PYTHONHASHSEED=expected)
        os.execve(sys.executable, [sys.executable, *sys.argv], env)


def verif_seed() -> int:
    try:
        return int(os.environ.get("VERIF_SEED", "0") or "0")
    except ValueError:
        return int(hashlib.sha256(os.environ["VERIF_SEED"].encode()).hexdigest()[:8], 16)


def workers() -> int:
    try:
        n = int(os.environ.get("VERIF_WORKERS", "16"))
    except ValueError:
        n = 16
    return max(1, n)


def src_dir() -> str:
    # realpath: code objects carry the path the import system used; a symlinked SCHWIFTY_SRC must not make the
    # package-prefix tests (instrumentation, lock seam) miss every frame
    return os.path.realpath(os.environ.get("SCHWIFTY_SRC", "/repo"))


def run_seed(vseed: int, prop: str, index: int) -> int:
    return int(hashlib.sha256(f"{vseed}:{prop}:{index}".encode()).hexdigest()[:16], 16)


def install_tree(src: str | None = None) -> str:
    """Put the tree under test first on sys.path; pre-seed the one metadata lookup the package
    performs at import so that scratch copies without installed metadata can be imported."""
    src = src or src_dir()
    if not os.path.isdir(os.path.join(src, "schwifty")):
        raise HarnessError(f"no schwifty package under {src}")
    if sys.path[:1] != [src]:
        sys.path.insert(0, src)
    import importlib.metadata as md

    if not getattr(md, "_verif_patched", False):
        orig = md.version

        def version(name: str) -> str:
            try:
                return orig(name)
            except md.PackageNotFoundError:
                if name == "schwifty":
                    return "0+verif"
                raise

        md.version = version
        md._verif_patched = True
    return src


def import_tree(src: str | None = None):
    """Import schwifty from the tree under test and assert where it came from."""
    src = install_tree(src)
    import schwifty

    got = os.path.realpath(os.path.dirname(schwifty.__file__))
    want = os.path.realpath(os.path.join(src, "schwifty"))
    if got != want:
        raise HarnessError(f"schwifty imported from {got}, expected {want}")
    return schwifty


def package_dir(src: str | None = None) -> str:
    return os.path.realpath(os.path.join(src or src_dir(), "schwifty")) + os.sep


def tree_digest(src: str | None = None) -> str:
    """sha256 over the python sources and the names+sizes of the registry files."""
    src = src or src_dir()
    h = hashlib.sha256()
    base = os.path.join(src, "schwifty")
    for root, dirs, files in sorted(os.walk(base)):
        dirs.sort()
        if "__pycache__" in root:
            continue
        for name in sorted(files):
            p = os.path.join(root, name)
            rel = os.path.relpath(p, base)
            if name.endswith(".py"):
                h.update(rel.encode())
                with open(p, "rb") as fp:
                    h.update(fp.read())
            elif name.endswith(".json"):
                h.update(f"{rel}:{os.path.getsize(p)}".encode())
    return h.hexdigest()


class EventLog:
    """Incremental sha256 over every recorded event; optionally keeps the events."""

    __slots__ = ("_h", "count", "events")

    def __init__(self, keep: bool = False) -> None:
        self._h = hashlib.sha256()
        self.count = 0
        self.events: list | None = [] if keep else None

    def add(self, *fields) -> None:
        self._h.update(("\x1f".join(map(str, fields)) + "\x1e").encode("utf-8", "backslashreplace"))
        self.count += 1
        if self.events is not None:
            self.events.append(list(fields))

    def digest(self) -> str:
        return self._h.hexdigest()


def jdump(obj) -> str:
    return json.dumps(obj, sort_keys=True, ensure_ascii=True, separators=(",", ":"))


def jhash(obj) -> str:
    return hashlib.sha256(jdump(obj).encode()).hexdigest()


# ---------------------------------------------------------------------------------------------
# known findings
# ---------------------------------------------------------------------------------------------


def load_known_findings(prop: str) -> list[dict]:
    path = os.path.join(VERIF_DIR, "known_findings.json")
    if not os.path.exists(path):
        return []
    with open(path, encoding="utf-8") as fp:
        doc = json.load(fp)
    return [f for f in doc.get("findings", []) if f.get("property") == prop]


def match_known(signature: dict, findings: list[dict]) -> dict | None:
    """A finding matches when every key of its 'signature' equals the violation's signature."""
    for f in findings:
        sig = f.get("signature", {})
        if sig and all(signature.get(k) == v for k, v in sig.items()):
            return f
    return None


# ---------------------------------------------------------------------------------------------
# exit-code discipline
# ---------------------------------------------------------------------------------------------


def main_wrapper(fn) -> None:
    """Run a check entry point; anything unexpected is a HARNESS-ERROR (exit 2), never a pass."""
    try:
        rc = fn()
    except HarnessError as e:
        print(f"HARNESS-ERROR: {e}", file=sys.stderr)
        rc = EXIT_HARNESS
    except SystemExit:
        raise
    except BaseException:  # noqa: BLE001
        traceback.print_exc()
        print("HARNESS-ERROR: internal exception", file=sys.stderr)
        rc = EXIT_HARNESS
    sys.stdout.flush()
    sys.stderr.flush()
    os._exit(int(rc or 0))
