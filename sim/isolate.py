"""Process isolation: fork-per-run with a watchdog, fresh-interpreter runner, worker pool.

Every simulated run executes in its own ``os.fork()`` child of a *pristine* worker (package
imported, no library call made) and reports through a pipe; a child that does not answer within the
watchdog budget is killed and classified HARNESS-ERROR.  Nothing here ever turns a timeout into a
pass.
"""

from __future__ import annotations

import faulthandler
import multiprocessing
import os
import pickle
import select
import signal
import subprocess
import sys
import time
import traceback
from concurrent.futures import ProcessPoolExecutor, as_completed
from concurrent.futures.process import BrokenProcessPool

from .core import HASHSEED, VERIF_DIR, HarnessError


def fork_call(fn, args=(), timeout: float = 60.0):
    """Run ``fn(*args)`` in a forked child; return its (picklable) result.

    Raises HarnessError on watchdog expiry, on a child that dies, or on an exception that escapes
    ``fn`` (the check functions catch what they expect themselves)."""
    r, w = os.pipe()
    sys.stdout.flush()
    sys.stderr.flush()
    pid = os.fork()
    if pid == 0:
        code = 0
        try:
            os.close(r)
            die_with_parent()
            # NB: never call faulthandler.dump_traceback_later here: if the parent armed it, the
            # watchdog thread does not exist in this child and re-arming deadlocks on its lock.
            # The parent sends SIGABRT on timeout; faulthandler.enable() (inherited) dumps the stacks.
            try:
                payload = ("ok", fn(*args))
            except BaseException:  # noqa: BLE001
                payload = ("err", traceback.format_exc())
            data = pickle.dumps(payload, protocol=4)
            data = len(data).to_bytes(8, "big") + data  # length prefix: the parent stops at the end of the payload
            view = memoryview(data)
            while view:
                n = os.write(w, view)
                view = view[n:]
            os.close(w)
        except BaseException:  # noqa: BLE001
            code = 3
        finally:
            os._exit(code)
    os.close(w)
    chunks = []
    got = 0
    need = None
    deadline = time.monotonic() + timeout
    timed_out = False
    try:
        while need is None or got < need + 8:
            left = deadline - time.monotonic()
            if left <= 0:
                timed_out = True
                break
            ready, _, _ = select.select([r], [], [], left)
            if not ready:
                timed_out = True
                break
            buf = os.read(r, 1 << 16)
            if not buf:
                break  # EOF before the announced length: the child died
            chunks.append(buf)
            got += len(buf)
            if need is None and got >= 8:
                need = int.from_bytes(b"".join(chunks)[:8], "big")
    finally:
        os.close(r)
    if timed_out:
        try:
            os.kill(pid, signal.SIGABRT)
            time.sleep(0.3)
            os.kill(pid, signal.SIGKILL)
        except ProcessLookupError:
            pass
    _, status = os.waitpid(pid, 0)
    if timed_out:
        raise HarnessError(f"watchdog: forked run did not finish within {timeout}s")
    blob = b"".join(chunks)
    if need is None or len(blob) < need + 8:
        raise HarnessError(f"forked run died without a complete result (status {status}, {len(blob)} bytes)")
    kind, value = pickle.loads(blob[8:8 + need])
    if kind == "err":
        raise HarnessError("exception inside forked run:\n" + value)
    return value


def fresh_python(argv: list[str], hashseed: str = HASHSEED, env_extra: dict | None = None,
                 timeout: float = 300.0, stdin: bytes | None = None) -> subprocess.CompletedProcess:
    """Run a brand-new interpreter (same executable) under a given PYTHONHASHSEED."""
    env = dict(os.environ)
    env["PYTHONHASHSEED"] = str(hashseed)
    env["PYTHONPATH"] = VERIF_DIR + (os.pathsep + env["PYTHONPATH"] if env.get("PYTHONPATH") else "")
    env["PYTHONDONTWRITEBYTECODE"] = "1"
    if env_extra:
        env.update(env_extra)
    try:
        return subprocess.run([sys.executable, *argv], env=env, input=stdin, capture_output=True,
                              timeout=timeout, cwd=VERIF_DIR, check=False)
    except subprocess.TimeoutExpired as e:
        raise HarnessError(f"watchdog: fresh interpreter {argv} exceeded {timeout}s") from e


def _init_worker(initializer, initargs) -> None:
    die_with_parent()
    if initializer is not None:
        initializer(*initargs)


class Pool:
    """ProcessPoolExecutor (fork context) whose workers stay pristine; tasks fork again per run."""

    def __init__(self, nworkers: int, initializer=None, initargs=()):
        self.n = nworkers
        ctx = multiprocessing.get_context("fork")
        self.ex = ProcessPoolExecutor(nworkers, mp_context=ctx,
                                      initializer=_init_worker, initargs=(initializer, initargs))

    def map_unordered(self, fn, tasks: list, timeout: float):
        """Yield (task, result) as they complete; HarnessError on pool breakage or overall timeout."""
        futs = {self.ex.submit(fn, t): t for t in tasks}
        try:
            for fut in as_completed(futs, timeout=timeout):
                yield futs[fut], fut.result()
        except BrokenProcessPool as e:
            raise HarnessError(f"worker pool broke: {e}") from e
        except TimeoutError as e:
            raise HarnessError(f"watchdog: batch exceeded {timeout}s") from e

    def close(self) -> None:
        procs = dict(getattr(self.ex, "_processes", None) or {})  # shutdown() forgets them
        try:
            self.ex.shutdown(wait=False, cancel_futures=True)
        except Exception:  # noqa: BLE001
            pass
        # make sure no worker outlives the check
        for p in list(procs.values()):
            try:
                p.kill()
            except Exception:  # noqa: BLE001
                pass


_guarded = False
try:
    import ctypes as _ctypes

    _libc = _ctypes.CDLL("libc.so.6", use_errno=True)
except Exception:  # noqa: BLE001
    _libc = None


def die_with_parent() -> None:
    """Linux: deliver SIGKILL to this process when its parent dies (no orphaned workers)."""
    try:
        if _libc is not None:
            _libc.prctl(1, signal.SIGKILL, 0, 0, 0)  # PR_SET_PDEATHSIG
    except Exception:  # noqa: BLE001
        pass


def worker_guard(seconds: float = 6 * 3600.0) -> None:
    """Arm a traceback dump in a worker so that a hang leaves a diagnosis (once per worker)."""
    global _guarded
    if _guarded:
        return
    _guarded = True
    die_with_parent()
    try:
        faulthandler.enable()
        faulthandler.dump_traceback_later(seconds, exit=True)
    except Exception:  # noqa: BLE001
        pass
