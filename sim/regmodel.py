"""C18: configuration generators and the ~25-line reference model of registry composition.

The reference model is independent of ``schwifty/registry.py``: sort names; ``deep_merge(l, r)`` =
copy of ``l`` where for each key of ``r`` the value is the deep merge of both if both are dicts,
else ``r``'s; bank list = concatenation in name order with each v2 entry expanded to one entry per
listed code carrying every other field plus ``primary`` defaulting to ``False``.
"""

from __future__ import annotations

import json
import re

CODES = ["AT", "NL", "GB", "CH", "SE", "DK", "LU", "IE", "LT", "LV", "GR", "HU", "RO", "BG", "HR", "CY", "MT",
         "LI", "AD", "AE"]
NAME_ALPHABET = "abcdefghijklmnopqrstuvwxyz0123456789_"  # plus '-' and inner dots, see gen_names


# ---------------------------------------------------------------------------------------------
# reference model
# ---------------------------------------------------------------------------------------------


def deep_merge(left: dict, right: dict) -> dict:
    out = dict(left)
    for k, v in right.items():
        if k in out and isinstance(out[k], dict) and isinstance(v, dict):
            out[k] = deep_merge(out[k], v)
        else:
            out[k] = v
    return out


def json_names(files: dict) -> list[str]:
    return sorted(n for n in files if n.endswith(".json"))


def ref_iban(files: dict[str, str]) -> dict:
    merged = None
    for n in json_names(files):
        doc = json.loads(files[n])
        merged = doc if merged is None else deep_merge(merged, doc)
    return merged


def expand_v2(doc: dict) -> list[dict]:
    out = []
    src, dst = doc["expand_from"], doc["expand_into"]
    for e in doc["entries"]:
        rest = {k: v for k, v in e.items() if k != src}
        rest.setdefault("primary", False)
        for code in e[src]:
            out.append({**rest, dst: code})
    return out


def ref_bank(files: dict[str, str]) -> list[dict]:
    out: list[dict] = []
    for n in json_names(files):
        doc = json.loads(files[n])
        out.extend(expand_v2(doc) if n.endswith(".v2.json") else doc)
    return out


def strip_regex(table):
    if not isinstance(table, dict):
        return table
    return {k: ({kk: vv for kk, vv in v.items() if kk != "regex"} if isinstance(v, dict) else v)
            for k, v in table.items()}


def first_diff(a, b, path: str = "") -> str | None:
    if isinstance(a, dict) and isinstance(b, dict):
        for k in a:
            if k not in b:
                return f"{path}/{k}: missing (expected {json.dumps(a[k], ensure_ascii=True)[:80]})"
        for k in b:
            if k not in a:
                return f"{path}/{k}: unexpected {json.dumps(b[k], default=repr, ensure_ascii=True)[:80]}"
        for k in a:
            d = first_diff(a[k], b[k], f"{path}/{k}")
            if d:
                return d
        return None
    if isinstance(a, list) and isinstance(b, list):
        if len(a) != len(b):
            return f"{path}: list length expected {len(a)} got {len(b)}"
        for i, (x, y) in enumerate(zip(a, b)):
            d = first_diff(x, y, f"{path}[{i}]")
            if d:
                return d
        return None
    if type(a) is not type(b) or a != b:
        return f"{path}: expected {json.dumps(a, ensure_ascii=True)[:100]} got {json.dumps(b, default=repr, ensure_ascii=True)[:100]}"
    return None


def leaf_paths(d, prefix=()):
    """All (path, value) with value a non-dict (lists are leaves: they are replaced, never merged)."""
    if isinstance(d, dict):
        if not d:
            yield prefix, d
        for k, v in d.items():
            yield from leaf_paths(v, prefix + (k,))
    else:
        yield prefix, d


def lookup(d, path):
    for k in path:
        if not isinstance(d, dict) or k not in d:
            return KeyError
        d = d[k]
    return d


# ---------------------------------------------------------------------------------------------
# generators
# ---------------------------------------------------------------------------------------------


def gen_names(rng, n: int, v2_flags: list[bool] | None = None) -> list[str]:
    names: list[str] = []
    while len(names) < n:
        style = rng.randrange(4)
        if style == 0 and names:
            stem = names[rng.randrange(len(names))].split(".")[0] + NAME_ALPHABET[rng.randrange(len(NAME_ALPHABET))]
        elif style == 1:
            stem = rng.choice(["generated", "manual", "overwrite", "zz", "a", "0", "_"]) + \
                (("_" + NAME_ALPHABET[rng.randrange(26)]) if rng.random() < 0.5 else "")
        else:
            stem = "".join(NAME_ALPHABET[rng.randrange(len(NAME_ALPHABET))] for _ in range(1 + rng.randrange(6)))
        r = rng.random()
        if r < 0.15 and names:  # "overwrite-local.json" next to "overwrite.json": '-' sorts before '.'
            stem = names[rng.randrange(len(names))].split(".")[0] + "-" + NAME_ALPHABET[rng.randrange(26)]
        elif r < 0.3 and names:  # "generated.early.json" next to "generated.json": a dotted part before ".json"
            stem = names[rng.randrange(len(names))].split(".")[0] + "." + rng.choice(["early", "fix", "a", "zz", "0"])
        elif r < 0.35:
            stem = stem + rng.choice(["-x", ".local", "-1"])
        if rng.random() < 0.04:
            stem = "." + stem  # a hidden overlay (".site.json") is still a JSON file of the directory
        is_v2 = bool(v2_flags and v2_flags[len(names)])
        if stem.endswith("v2") or stem in (".", ".."):
            continue  # a non-v2 file whose stem ends in "v2" would be ambiguous; not generated
        name = stem + (".v2.json" if is_v2 else ".json")
        if name not in names:
            names.append(name)
    return names


def shuffled_order(rng, names: list[str]) -> list[str]:
    order = list(names)
    if len([n for n in order if n.endswith(".json")]) >= 2:
        for _ in range(8):
            rng.shuffle(order)
            js = [n for n in order if n.endswith(".json")]
            if js != sorted(js):
                break
    else:
        rng.shuffle(order)
    return order


def _dump(rng, doc) -> str:
    style = rng.randrange(3)
    if style == 0:
        return json.dumps(doc, ensure_ascii=False)
    if style == 1:
        return json.dumps(doc, ensure_ascii=False, indent=2)
    return json.dumps(doc, ensure_ascii=True, indent=1, sort_keys=True)


def synth_spec(rng, cc: str) -> dict:
    bank_len = rng.choice([3, 4, 5])
    branch_len = rng.choice([0, 0, 3, 4])
    acct_len = rng.choice([6, 8, 10])
    k1 = rng.choice("nnac")
    k2 = rng.choice("nnc")
    bban_spec = f"{bank_len}!{k1}" + (f"{branch_len}!n" if branch_len else "") + f"{acct_len}!{k2}"
    length = bank_len + branch_len + acct_len
    positions = {"bank_code": [0, bank_len], "account_code": [bank_len + branch_len, length]}
    if branch_len:
        positions["branch_code"] = [bank_len, bank_len + branch_len]
    spec = {"country": cc, "in_sepa_zone": bool(rng.randrange(2)), "bban_spec": bban_spec, "bban_length": length,
            "iban_spec": f"{cc}2!n{bban_spec}", "iban_length": 4 + length, "positions": positions}
    if branch_len and rng.random() < 0.3:
        spec["bic_lookup_components"] = ["bank_code", "branch_code"]
    return spec


def gen_spec_overlay(rng, effective: dict, unused_codes: list[str]) -> dict:
    """An e2e-safe overlay: the merged table stays importable."""
    doc: dict = {}
    ccs = sorted(effective)
    for _ in range(1 + rng.randrange(4)):
        kind = rng.randrange(7)
        cc = rng.choice(ccs)
        if kind == 0 and unused_codes:
            new = unused_codes.pop(rng.randrange(len(unused_codes)))
            doc[new] = synth_spec(rng, new)
        elif kind == 1:
            doc.setdefault(cc, {})["in_sepa_zone"] = not effective[cc].get("in_sepa_zone", False)
        elif kind == 2:
            full = synth_spec(rng, cc)  # complete structure replacement (positions dict merges key-wise!)
            doc.setdefault(cc, {}).update({k: full[k] for k in ("bban_spec", "bban_length", "iban_spec", "iban_length")})
            pos = dict(full["positions"])
            for stale in effective[cc].get("positions", {}):
                pos.setdefault(stale, [0, 0])
            pos.setdefault("branch_code", [0, 0])
            doc[cc]["positions"] = pos
            if "bic_lookup_components" in effective[cc] and pos["branch_code"] == [0, 0]:
                doc[cc]["bic_lookup_components"] = ["bank_code"]
        elif kind == 3:
            depth = 1 + rng.randrange(4)
            node: dict = {"v": rng.randrange(100)}
            for d in range(depth):
                node = {f"k{d}": node, f"s{d}": rng.choice(["x", 1, None, [1, 2], True])}
            doc.setdefault(cc, {}).setdefault("x_meta", {}).update(node)
        elif kind == 4:
            doc.setdefault(cc, {})["tags"] = [rng.randrange(9) for _ in range(rng.randrange(4))]
        elif kind == 5:
            doc.setdefault(cc, {})["country"] = cc  # same value: named but unchanged
        else:
            sp = effective[cc]
            a, b = sp["positions"]["account_code"]
            if b - a >= 4 and sp["positions"].get("currency_code", [0, 0]) == [0, 0]:  # carve a currency field out of the account: positions move, structure stays
                doc.setdefault(cc, {})["positions"] = {"account_code": [a + 3, b], "currency_code": [a, a + 3]}
    return doc


def gen_spec_config(rng) -> dict:
    nfiles = rng.choice([1, 2, 2, 3, 3, 4, 5])
    ncc = 2 + rng.randrange(5)
    codes = list(CODES)
    rng.shuffle(codes)
    base = {cc: synth_spec(rng, cc) for cc in codes[:ncc]}
    unused = codes[ncc:ncc + 4]
    names = sorted(gen_names(rng, nfiles))
    docs = [base]
    effective = base
    for _ in range(nfiles - 1):
        ov = gen_spec_overlay(rng, effective, unused)
        docs.append(ov)
        effective = deep_merge(effective, ov)
    files = {n: _dump(rng, d) for n, d in zip(names, docs)}
    distractors = {}
    if rng.random() < 0.5:
        distractors["README.md"] = "# not json\n"
    if rng.random() < 0.3:
        distractors[names[0] + ".bak"] = '{"AT": {"bban_spec": "1!n", "junk": true}}'
    if rng.random() < 0.2:
        distractors["notes.txt"] = "{}"
    files.update(distractors)
    return {"files": files, "order": shuffled_order(rng, list(files)), "kind": "spec"}


def gen_tree(rng, depth: int, keys: list[str]) -> dict:
    out: dict = {}
    for _ in range(1 + rng.randrange(4)):
        k = rng.choice(keys)
        r = rng.random()
        if depth > 0 and r < 0.5:
            out[k] = gen_tree(rng, depth - 1, keys)
        elif r < 0.65:
            out[k] = [rng.randrange(5) for _ in range(rng.randrange(4))]
        elif r < 0.7:
            out[k] = {}
        else:
            out[k] = rng.choice([0, 1, 2, "a", "b", None, True, False, 1.5, "ü"])
    return out


def gen_tree_config(rng) -> dict:
    """Abstract nested dictionaries of any shape: conflicting and disjoint keys, dict-vs-scalar
    conflicts in both directions, lists, keys present in three files (module-level runs only)."""
    nfiles = rng.choice([1, 2, 3, 3, 4, 5])
    keys = [rng.choice(["a", "b", "c", "d", "e", "positions", "AT", "NL", "x", "y"]) for _ in range(3 + rng.randrange(4))]
    names = gen_names(rng, nfiles)
    files = {n: _dump(rng, gen_tree(rng, 1 + rng.randrange(4), keys)) for n in names}
    if rng.random() < 0.3:
        # a deep chain shared by all files: dict-versus-dict conflicts five to seven levels down
        depth = 4 + rng.randrange(4)
        chain = [rng.choice(keys) for _ in range(depth)]
        for n in names:
            doc = json.loads(files[n])
            node = doc
            for k in chain:
                nxt = node.get(k) if isinstance(node, dict) else None
                if not isinstance(nxt, dict):
                    nxt = {}
                    node[k] = nxt
                node = nxt
            for _ in range(1 + rng.randrange(3)):
                node[rng.choice(["p", "q", "r", "s"])] = rng.choice([1, 2, "v", [1], {"t": rng.randrange(3)}])
            files[n] = _dump(rng, doc)
    if rng.random() < 0.4:
        files["README.md"] = "x"
    if rng.random() < 0.2:
        files[names[0] + ".bak"] = '{"a": {"b": 99}}'
    return {"files": files, "order": shuffled_order(rng, list(files)), "kind": "tree"}


def gen_bic(rng, cc: str) -> str:
    letters = "ABCDEFGHIJKLMNOPQRSTUVWXYZ"
    b = "".join(rng.choice(letters) for _ in range(4)) + cc + rng.choice(letters) + rng.choice(letters + "23456789")
    if rng.random() < 0.5:
        b += rng.choice(["XXX", "".join(rng.choice(letters + "0123456789") for _ in range(3))])
    return b


def gen_bank_config(rng, iban_effective: dict | None) -> dict:
    nfiles = rng.choice([1, 2, 2, 3, 4, 5])
    v2_flags = [rng.random() < 0.35 for _ in range(nfiles)]
    names = gen_names(rng, nfiles, v2_flags)
    ccs = sorted(iban_effective) if iban_effective else CODES[:4]
    ccs = ccs[:4]
    code_pool: dict[str, list[str]] = {}
    for cc in ccs:
        width = 4
        if iban_effective and isinstance(iban_effective.get(cc), dict):
            try:
                sp = iban_effective[cc]
                a, b = sp["positions"]["bank_code"]
                width = b - a
                if sp.get("bic_lookup_components") == ["bank_code", "branch_code"]:
                    a2, b2 = sp["positions"]["branch_code"]
                    width += b2 - a2
            except Exception:  # noqa: BLE001
                pass
        code_pool[cc] = [f"{rng.randrange(10 ** width):0{width}d}" for _ in range(3)] + ["", "7"]
    bic_pool = {cc: [gen_bic(rng, cc) for _ in range(3)] + [""] for cc in ccs}
    name_pool = ["Bank A", "Bänk ÅØ №3", "Crédit Ünion", "Ελληνική Τράπεζα", "Plain Bank", "Sparekassen"]
    files: dict[str, str] = {}
    for n, is_v2 in zip(names, v2_flags):
        if is_v2:
            entries = []
            for _ in range(rng.randrange(1, 5)):
                cc = rng.choice(ccs)
                e = {"country_code": cc, "bic": rng.choice(bic_pool[cc]), "name": rng.choice(name_pool),
                     "short_name": rng.choice(name_pool),
                     "bank_codes": [rng.choice(code_pool[cc]) for _ in range(rng.randrange(0, 5))]}
                if rng.random() < 0.4:
                    e["primary"] = bool(rng.randrange(2))
                if rng.random() < 0.2:
                    e["extra"] = {"note": rng.randrange(5)}
                if rng.random() < 0.15:
                    e["bank_code"] = rng.choice(["", "stale"])  # a left-over placeholder: every listed code overrides it
                entries.append(e)
            files[n] = _dump(rng, {"entries": entries, "expand_from": "bank_codes", "expand_into": "bank_code"})
        else:
            entries = []
            for _ in range(rng.randrange(0, 6)):
                cc = rng.choice(ccs)
                entries.append({"country_code": cc, "bank_code": rng.choice(code_pool[cc]),
                                "bic": rng.choice(bic_pool[cc]), "name": rng.choice(name_pool),
                                "short_name": rng.choice(name_pool), "primary": bool(rng.randrange(2))})
            files[n] = _dump(rng, entries)
    if rng.random() < 0.4:
        files["README.md"] = "Bank registry\n"
    if rng.random() < 0.2:
        files[names[0] + ".bak"] = "[]"
    return {"files": files, "order": shuffled_order(rng, list(files))}


_TOKEN = re.compile(r"(\d+)(!)?([nace])")
_CLASS = {"n": "[0-9]", "a": "[A-Z]", "c": "[A-Za-z0-9]", "e": " "}
_ALPHA = {"n": "0123456789", "a": "ABCDEFGHIJKLMNOPQRSTUVWXYZ", "c": "0123456789ABCDEFGHIJKLMNOPQRSTUVWXYZ", "e": " "}


def structure_regex(bban_spec: str):
    return re.compile("".join(_CLASS[m.group(3)] + ("{%d}" % int(m.group(1)) if m.group(2) else "{1,%d}" % int(m.group(1)))
                              for m in _TOKEN.finditer(bban_spec)))


def conforming_bban(rng, bban_spec: str) -> str:
    return "".join("".join(rng.choice(_ALPHA[m.group(3)]) for _ in range(int(m.group(1)))) for m in _TOKEN.finditer(bban_spec))
