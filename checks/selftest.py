#!/venv/bin/python
"""Self-tests that guard the simulator itself (not a manifest check).

  smoke        imports, one simulated run per engine, evidence schema reachable (used by setup_cmd)
  determinism  same seeds twice, different worker counts, fresh interpreter, other PYTHONHASHSEED
  sensitivity  scratch-copy mutants must be flagged, behaviour-preserving rewrites must pass
  seeded       regression over /verif/seeded/<id>/patch.diff (independent breaking changes): still flagged
  preserving   regression over /verif/preserving/<id>/patch.diff (independent preserving changes): still quiet
"""

from __future__ import annotations

import os
import subprocess
import sys

sys.path.insert(0, os.path.dirname(os.path.dirname(os.path.abspath(__file__))))
sys.path.insert(0, os.path.dirname(os.path.abspath(__file__)))

from sim import core  # noqa: E402

PY = sys.executable
VERIF = core.VERIF_DIR


def run(cmd, env=None, timeout=1800):
    e = dict(os.environ)
    e.update(env or {})
    p = subprocess.run(cmd, cwd=VERIF, env=e, capture_output=True, timeout=timeout, check=False)
    return p.returncode, p.stdout.decode("utf-8", "replace"), p.stderr.decode("utf-8", "replace")


def smoke() -> int:
    rc, out, err = run([PY, "checks/c14.py", "--runs", "40", "--no-sweep", "--no-evidence"], timeout=300)
    print(out.strip().splitlines()[-1] if out.strip() else err[-500:])
    if rc != 0:
        print(err[-2000:])
        print("smoke: C14 engine failed", file=sys.stderr)
        return 2
    print("smoke ok")
    return 0


def main() -> int:
    what = sys.argv[1] if len(sys.argv) > 1 else "smoke"
    if what == "smoke":
        return smoke()
    import selftest_impl

    return selftest_impl.main(what, sys.argv[2:])


if __name__ == "__main__":
    sys.exit(main())
