#!/venv/bin/python
"""C15 — results depend only on arguments and bundled data, never on call history.

Deterministic simulation of call histories: a seeded sequence of 1–40 API calls (including failing
calls and calls aborted half-way by an injected SimAbort/MemoryError) runs in one forked child of a
pristine process; every non-aborted call must give exactly the outcome it gives as the first call
in a pristine process, the registries and algorithm table must be preserved, and every object
created earlier must be unchanged at the end.  See DESIGN.md §4.
"""

from __future__ import annotations

import argparse
import json
import os
import random
import sys

sys.path.insert(0, os.path.dirname(os.path.dirname(os.path.abspath(__file__))))

from sim import core, evidence, gen, inject, isolate, ops, report, runner, state  # noqa: E402

PROP = "C15"
SCRIPT = os.path.join("checks", "c15.py")
MAX_LEN = 40
FRESH_HASHSEED = "4242"

PRODUCERS = {"iban", "iban_validate", "iban_is_valid", "iban_props", "iban_checksum", "from_bban", "generate",
             "from_components", "bban", "bban_props", "bban_checksum", "iban_random", "bban_random", "bic",
             "bic_validate", "bic_props", "bic_from_bank_code", "copy", "deepcopy", "pickle"}
BBAN_PRODUCERS = {"from_components", "bban", "bban_props", "bban_checksum", "bban_random"}

PRISTINE_SHALLOW = None
PRISTINE_FAST = None
PRISTINE_DEEP = None
BATTERY: list = []
COUNTRY_BATTERY: list = []


# ---------------------------------------------------------------------------------------------
# generation
# ---------------------------------------------------------------------------------------------


def battery(pool: dict) -> list:
    """Fixed probe battery spanning every API family and every DE method."""
    b = []
    for key in sorted(pool["de_methods"]):
        rows = pool["de_methods"][key]["accounts"]
        acc = [a for a, c in rows if c.startswith("accept")]
        rej = [a for a, c in rows if c.startswith("reject")]
        if acc:
            b.append((["algo_validate", key, [acc[0]], ""], key))
        if rej:
            b.append((["algo_validate", key, [rej[-1]], ""], key))
    for key in sorted(pool["de_ibans"]):
        rows = pool["de_ibans"][key]
        if rows:
            b.append((["iban", rows[0][0], {"validate_bban": True}], key))
    for key in sorted(pool["algos"]):
        comps, exp = pool["algos"][key][0]
        b.append((["algo_validate", key, comps, exp], key))
    vi = pool["valid_ibans"]
    for cc in ("DE", "FR", "GB", "PL", "NO", "IT", "ES", "BE", "MU", "BR"):
        if vi.get(cc):
            b.append((["iban_props", vi[cc][0]], None))
    bk = pool["bank_keys"]
    for k in bk["ordersens"][:6] + bk["multi"][:3]:
        b.append((["bic_candidates", *k], "bank_index"))
        b.append((["bic_from_bank_code", *k], "bank_index"))
    for t in pool["lookup_ibans"][:6]:
        b.append((["iban_props", t], "bank_index"))
    b += [(["bic_props", "GENODEM1GLS"], None), (["bic_props", pool["bics"]["registry"][0]], None),
          (["bic", "1234DEWW", {"enforce_swift_compliance": True}], None),
          (["iban_random", "DE", 11, True, {}], None), (["iban_random", "", 12, True, {}], None),
          (["bban_random", "PL", 13, True, {}], None), (["iban_random", "GB", 14, False, {}], None),
          (["generate", "DE", "37040044", "532013000", ""], None),
          (["from_bban", "DE", "370400440532013000", {"validate_bban": True}], "DE:13"),
          (["iban", "DE89370400440532013000", {}], None)]
    return b


def collide(rng, pool, history, targets):
    """An op that reuses the text/key of an earlier op under different flags or entry points."""
    j = rng.randrange(len(history))
    e, tg = history[j], targets[j]
    k = e[0]
    if k in ("bban", "bban_props", "bban_checksum", "from_bban") and rng.random() < 0.4:
        # the same BBAN text under a *different* country of equal BBAN length (objects with equal text, other country)
        text = e[2] if isinstance(e[2], str) else None
        if text:
            same_len = [c for c in pool["countries"] if c != e[1] and pool["components"].get(c)
                        and len(pool["components"][c][0][3]) == len(text)]
            if same_len:
                cc2 = rng.choice(same_len)
                if k == "from_bban":
                    return ["from_bban", cc2, text, {"allow_invalid": True}], tg
                return [rng.choice(["bban", "bban_props"]), cc2, text], tg
    if rng.random() < 0.15 and len(e) > 1 and isinstance(e[1], str):
        # the same *country* through another entry point (country lookups, spec table, pycountry are shared)
        if k.startswith("iban") and len(e[1]) >= 2 and e[1][:2].upper() in pool["bics"]["by_country"]:
            text = rng.choice(pool["bics"]["by_country"][e[1][:2].upper()])
            return rng.choice([["bic", text, {}], ["bic_props", text], ["bic_validate", text, False]]), None
        if k.startswith("bic") and len(e[1]) >= 6 and pool["valid_ibans"].get(e[1][4:6].upper()):
            text = rng.choice(pool["valid_ibans"][e[1][4:6].upper()])
            return rng.choice([["iban_props", text], ["iban", text, {}]]), None
    if k == "iban" and isinstance(e[1], str):
        flags = dict(e[2])
        which = rng.randrange(3)
        if which == 0:
            flags["validate_bban"] = not flags.get("validate_bban", False)
        elif which == 1:
            flags["allow_invalid"] = not flags.get("allow_invalid", False)
        else:
            return ["iban_validate", e[1], not flags.get("validate_bban", False)], tg
        return ["iban", e[1], flags], tg
    if k in ("iban_validate",):
        return ["iban_validate", e[1], not e[2]], tg
    if k in ("iban_is_valid", "iban_props", "iban_checksum"):
        return rng.choice([["iban", e[1], {"validate_bban": True}], ["iban", e[1], {}],
                           ["iban_checksum", e[1]], ["iban_props", e[1]]]), tg
    if k == "bic" and isinstance(e[1], str):
        flags = dict(e[2])
        flags["enforce_swift_compliance"] = not flags.get("enforce_swift_compliance", False)
        return ["bic", e[1], flags], tg
    if k in ("bic_props", "bic_validate"):
        return rng.choice([["bic", e[1], {}], ["bic", e[1], {"enforce_swift_compliance": True}],
                           ["bic_validate", e[1], True], ["bic_props", e[1]]]), tg
    if k in ("algo_validate", "algo_compute") and e[1] in pool["de_methods"]:
        if rng.random() < 0.25:  # the same account through a *different* method object
            other = rng.choice(sorted(pool["de_methods"]))
            return [k, other, json.loads(json.dumps(e[2])), *e[3:]], other
        if rng.random() < 0.7:
            op, key, _ = gen.gen_de_algo(rng, pool, e[1])
        else:
            op, key, _ = gen.gen_de_iban(rng, pool, e[1])
        return op, key
    if k == "bic_candidates":
        return ["bic_from_bank_code", e[1], e[2]], tg
    if k == "bic_from_bank_code":
        return ["bic_candidates", e[1], e[2]], tg
    if k in ("iban_random", "bban_random") and rng.random() < 0.5:
        other = "bban_random" if k == "iban_random" else "iban_random"
        return [other, e[1], e[2], e[3], e[4]], tg
    if gen.ops_has_ref(e):
        return gen.gen_op(rng, pool)
    return json.loads(json.dumps(e)), tg


def gen_ref_op(rng, producers, history, targets):
    j = producers[rng.randrange(len(producers))]
    # object bursts: keep working on the object the previous op used (flag-changing calls on one object)
    if history and rng.random() < 0.45:
        prev = ops.refs_of(history[-1])
        if prev and prev[0] in producers:
            j = prev[0]
        elif (len(history) - 1) in producers:
            j = len(history) - 1
    tg = targets[j]
    r = rng.randrange(12)
    ref = {"ref": j}
    if r == 0:
        return ["revalidate", ref, True], tg
    if r == 1:
        return ["revalidate", ref, False], tg
    if r in (2, 3):
        return ["props", ref], tg
    if r == 4:
        j2 = producers[rng.randrange(len(producers))]
        return ["cmp", ref, {"ref": j2}], tg
    if r == 5:
        return ["copy", ref], tg
    if r == 6:
        return ["deepcopy", ref], tg
    if r == 7:
        return ["pickle", ref], tg
    if r == 8:
        refs = [{"ref": producers[rng.randrange(len(producers))]} for _ in range(1 + rng.randrange(4))]
        return ["sorted", refs], tg
    if r == 9:
        return ["checksum_of", ref], tg
    if r == 10:
        return ["bank_of", ref], tg
    e = history[j]
    if e[0] in BBAN_PRODUCERS and isinstance(e[1], str) and e[1]:
        return ["from_bban", e[1], ref, {"validate_bban": bool(rng.randrange(2))}], tg
    if e[0].startswith("bic"):
        return ["bic", ref, {}], tg
    return ["iban", ref, {"validate_bban": bool(rng.randrange(2))}], tg


def gen_history(index: int, vseed: int, pool: dict, tier: str) -> dict:
    seed = core.run_seed(vseed, PROP, index)
    rng = random.Random(seed)
    mean = rng.choice([2, 4, 8, 16, 30])
    n = min(MAX_LEN, 1 + int(rng.expovariate(1.0 / mean)))
    weights = gen.swarm_weights(rng)
    p_abort = rng.choice([0.0, 0.0, 0.05, 0.2])
    p_ref = rng.choice([0.0, 0.15, 0.35])
    p_collide = rng.choice([0.1, 0.3, 0.6])
    warm = rng.random() < 0.15
    if rng.random() < (0.004 if tier == "quick" else 0.01) and len(pool["bank_keys"].get("many", [])) > 600:
        # fill history: one lookup, then N other distinct lookups (N around a power of two), then the first again -
        # a bounded memo / ring a change may have added wraps around exactly here
        many = pool["bank_keys"]["many"]
        n_fill = (1 << rng.choice([5, 6, 7, 8, 9])) + rng.choice([-1, 0, 1])
        first = [["bic_from_bank_code", *many[0]], ["bic_candidates", *many[1]], ["iban_props", pool["lookup_ibans"][0]]]
        kind = rng.choice(["bic_from_bank_code", "bic_candidates", "mixed"])  # N counts lookups of ONE kind
        body = [[kind if kind != "mixed" else rng.choice(["bic_from_bank_code", "bic_candidates"]), *many[2 + i]]
                for i in range(min(n_fill, len(many) - 3))]
        hist = first + body + [json.loads(json.dumps(op)) for op in first]
        return {
            "property": PROP, "engine": core.ENGINE_VERSION, "verif_seed": vseed, "run_index": index,
            "run_seed": str(seed), "pythonhashseed": core.HASHSEED,
            "config": {"warm": False, "mean_len": len(hist), "p_abort": 0.0, "p_ref": 0.0, "p_collide": 0.0,
                       "burst": None, "tail_from": len(hist), "deep": False, "fill": n_fill},
            "history": hist, "targets": ["bank_index"] * len(hist), "faults": [],
        }
    history: list = []
    targets: list = []
    faults: list = []
    producers: list[int] = []
    burst_key = rng.choice(sorted(pool["de_methods"])) if rng.random() < 0.15 else None
    if burst_key is not None:
        n = min(MAX_LEN, max(n, 3 + rng.randrange(8)))
    for j in range(n):
        r = rng.random()
        if burst_key is not None and r < 0.85:
            # burst on one method singleton: accept / reject / raising / special-remainder accounts back to back,
            # through the algorithm object and through the IBAN API
            g = gen.gen_de_iban if (burst_key in pool["de_ibans"] and rng.random() < 0.35) else gen.gen_de_algo
            op, tg, _ = g(rng, pool, burst_key)
        elif history and r < p_collide:
            op, tg = collide(rng, pool, history, targets)
        elif producers and r < p_collide + p_ref:
            op, tg = gen_ref_op(rng, producers, history, targets)
        else:
            op, tg = gen.gen_op(rng, pool, weights)
        planned = rng.random() < p_abort
        if planned:
            faults.append({"at_op": len(history), "kind": rng.choice(["SimAbort", "MemoryError"]), "frac": rng.random()})
        elif op[0] in PRODUCERS:
            producers.append(len(history))
        history.append(op)
        targets.append(tg)
        if not planned and op[0] in PRODUCERS and rng.random() < 0.08 and len(history) < MAX_LEN - 3:
            # flag-changing calls on the object just created: strict / lenient validation back to back, then a read
            me = {"ref": len(history) - 1}
            first_flag = bool(rng.randrange(2))
            for follow in (["revalidate", me, first_flag], ["revalidate", me, not first_flag], ["props", me]):
                history.append(follow)
                targets.append(tg)
    full_tail = rng.random() < (0.02 if tier == "quick" else 0.05)
    ntail = len(BATTERY) if full_tail else rng.choice([0, 3, 6, 6])
    tail = BATTERY if full_tail else rng.sample(BATTERY, min(ntail, len(BATTERY)))
    if not full_tail and rng.random() < 0.01:
        # every country through both entry points: all accessors of one IBAN per country, then a BIC of each country
        tail = COUNTRY_BATTERY
    tail_from = len(history)
    for op, tg in tail:
        history.append(op)
        targets.append(tg)
    deep = (rng.random() < 0.05) if tier == "quick" else (rng.random() < 0.5)
    return {
        "property": PROP, "engine": core.ENGINE_VERSION, "verif_seed": vseed, "run_index": index,
        "run_seed": str(seed), "pythonhashseed": core.HASHSEED,
        "config": {"warm": warm, "mean_len": mean, "p_abort": p_abort, "p_ref": p_ref, "p_collide": p_collide,
                   "burst": burst_key,
                   "tail_from": tail_from, "deep": deep},
        "history": history, "targets": targets, "faults": faults,
    }


def resolve_faults(rec: dict) -> None:
    """Turn each planned fault's fraction into a concrete library line number (needs solo line counts)."""
    for f in rec["faults"]:
        if "line" in f:
            continue
        op = rec["history"][f["at_op"]]
        n = 40 if gen.ops_has_ref(op) else max(1, runner.lines(op))
        # 60 % anywhere in the call, 20 % among its first 64 library lines, 20 % among its last 64: in a long call (a
        # tree that loads or indexes lazily passes 10^5 lines in its first lookup) the in-flight windows - claim,
        # publish, release - sit at the two ends, and a uniform position almost never lands there.  For calls of at
        # most 64 lines all three cases are uniform over the whole call.
        fr, edge = f["frac"], min(n, 64)
        if fr < 0.6:
            f["line"] = 1 + int(fr / 0.6 * n)
        elif fr < 0.8:
            f["line"] = 1 + int((fr - 0.6) / 0.2 * edge)
        else:
            f["line"] = n - int((fr - 0.8) / 0.2 * edge)
        f["line"] = max(1, min(n, f["line"]))


# ---------------------------------------------------------------------------------------------
# one simulated history (inside a forked child)
# ---------------------------------------------------------------------------------------------


def run_child(rec: dict, deep_each_op: bool = False) -> dict:
    cfg = rec["config"]
    if cfg.get("warm"):
        runner.warm_up()
    faults = {f["at_op"]: f for f in rec["faults"]}
    inj = inject.AbortInjector(len(runner.PKG_DIR))
    log = core.EventLog()
    objs: list = []
    outcomes: list = []
    aborted: dict[int, str] = {}
    snaps: dict[int, dict] = {}
    touched: set = set()
    states: set = set()
    transitions: list = []
    nontrivial: list = []
    prev_fp = hash(state.state_fingerprint())
    states.add(prev_fp)
    first_deep_diff = None
    history, targets = rec["history"], rec["targets"]
    for j, op in enumerate(history):
        f = faults.get(j)
        obj = None
        if f is not None:
            inj.arm(f["line"], f["kind"])
            try:
                out, obj = ops.execute(op, objs)
            except inject.SimAbort:
                out = ["aborted"]
            finally:
                inj.disarm()
            if inj.fired is not None:
                aborted[j] = inj.fired
                out, obj = ["aborted", f["kind"], inj.fired], None
        else:
            out, obj = ops.execute(op, objs)
        objs.append(obj)
        outcomes.append(out)
        if obj is not None:
            try:
                snaps[j] = ops.snapshot(obj)
            except Exception:  # noqa: BLE001
                pass
        log.add(j, core.jdump(op), core.jdump(out))
        fp = hash(state.state_fingerprint())
        states.add(fp)
        tg = targets[j]
        tr = hash((prev_fp, op[0], tg))
        transitions.append(tr)
        if tg is not None and tg in touched:
            nontrivial.append(tr)
        if tg is not None:
            touched.add(tg)
        prev_fp = fp
        if deep_each_op and first_deep_diff is None:
            d, _ = state.preserved(PRISTINE_DEEP, state.deep_view())
            if d:
                first_deep_diff = [j, d]
    try:
        unchanged = state.fast_view() == PRISTINE_FAST
    except Exception:  # noqa: BLE001 - a registry so broken that the summary cannot be built
        unchanged = False
    if unchanged:
        shallow_diff, additions = None, 0
    else:
        shallow_diff, additions = state.compare_shallow(PRISTINE_SHALLOW, state.shallow_view())
    deep_diff = None
    force_deep = not unchanged  # something moved or changed: the content view decides what it means
    identity_only = False
    if cfg.get("deep") or deep_each_op or force_deep:
        deep_diff, a2 = state.preserved(PRISTINE_DEEP, state.deep_view())
        additions += a2
    if shallow_diff and not deep_diff:
        # entries or lists were replaced by equal ones (e.g. lazily rebuilt with copies): contents, order and index
        # membership are all preserved, so this is not a modification of the bundled data - counted, not flagged
        identity_only = True
        shallow_diff = None
    obj_diff = None
    obj_additions = 0
    for j, snap0 in snaps.items():
        try:
            now = ops.snapshot(objs[j])
        except Exception as e:  # noqa: BLE001
            obj_diff = [j, f"snapshot raised {type(e).__name__}: {e}"]
            break
        private_then, private_now = snap0.pop("private_attr_names", []), now.pop("private_attr_names", [])
        obj_additions += private_then != private_now
        d, a = state.preserved(snap0, now)
        obj_additions += a
        if d:
            obj_diff = [j, d]
            break
    return {
        "outcomes": outcomes, "aborted": aborted, "shallow_diff": shallow_diff, "deep_diff": deep_diff,
        "deep_checked": bool(cfg.get("deep") or deep_each_op or force_deep), "first_deep_diff": first_deep_diff,
        "obj_diff": obj_diff, "additions": additions + int(identity_only), "obj_additions": obj_additions,
        "states": sorted(states), "transitions": transitions, "nontrivial": nontrivial,
        "event_digest": log.digest(), "objects": len(snaps),
    }


closure_chain = ops.closure_chain


def reference(rec: dict, j: int):
    chain = closure_chain(rec["history"], j)
    if len(chain) == 1:
        return runner.solo(chain[0])["outcome"]
    return runner.solo_history(chain)["outcome"]


def _family(target) -> str:
    return "none" if not target else str(target).split(":", 1)[0]


def judge(rec: dict, res: dict) -> dict | None:
    for j, op in enumerate(rec["history"]):
        if str(j) in res["aborted"] or j in res["aborted"]:
            continue
        want = reference(rec, j)
        got = res["outcomes"][j]
        if not ops.same_outcome(op, got, want):
            return {"kind": "outcome-differs-from-first-call", "op_index": j,
                    "signature": {"kind": "outcome-differs-from-first-call", "op_kind": op[0],
                                  "target": _family(rec["targets"][j])},
                    "op": op, "expected": want, "observed": got,
                    "detail": f"op #{j} {core.jdump(op)[:200]} as first call in a fresh process -> "
                              f"{core.jdump(want)[:200]} but after this history -> {core.jdump(got)[:200]}"}
    if res["shallow_diff"] or res["deep_diff"]:
        d = res["shallow_diff"] or res["deep_diff"]
        where = d.split("[", 2)[1].split("]")[0] if d.startswith("registry[") else d.strip("/").split("/")[0].split(":")[0].split("[")[0]
        return {"kind": "registry-modified", "op_index": (res.get("first_deep_diff") or [None])[0],
                "signature": {"kind": "registry-modified", "where": where[:40]},
                "detail": f"bundled data changed by the history: {d}"
                          + (f" (first seen after op #{res['first_deep_diff'][0]})" if res.get("first_deep_diff") else "")}
    if res["obj_diff"]:
        j, d = res["obj_diff"]
        return {"kind": "object-modified", "op_index": j,
                "signature": {"kind": "object-modified", "op_kind": rec["history"][j][0]},
                "detail": f"object created by op #{j} {core.jdump(rec['history'][j])[:160]} changed later: {d}"}
    return None


def execute_record(rec: dict, deep_each_op: bool = False):
    rec = json.loads(json.dumps(rec))
    resolve_faults(rec)
    res = isolate.fork_call(run_child, (rec, deep_each_op), timeout=120)
    return rec, res, judge(rec, res)


# ---------------------------------------------------------------------------------------------
# worker
# ---------------------------------------------------------------------------------------------


def ensure_views() -> None:
    global PRISTINE_SHALLOW, PRISTINE_DEEP, PRISTINE_FAST
    if PRISTINE_SHALLOW is None:
        PRISTINE_FAST = state.fast_view()
        PRISTINE_SHALLOW = state.shallow_view()
        PRISTINE_DEEP = state.deep_view()


def worker_task(task: dict) -> dict:
    isolate.worker_guard()
    ensure_views()
    vseed, tier = task["vseed"], task["tier"]
    st = {"runs": 0, "ops": 0, "aborts_planned": 0, "aborts_fired": {}, "abort_sites": {}, "exc": {},
          "states": set(), "transitions": set(), "nontrivial": set(), "violations": [], "violation_count": 0,
          "samples": [], "digests": [], "deep_checked": 0, "additions": 0, "obj_additions": 0, "objects": 0,
          "ref_ops": 0, "warm": 0, "tail_ops": 0, "probes": {}, "refsample": [], "len_hist": {}}

    def probe(name, n=1):
        st["probes"][name] = st["probes"].get(name, 0) + n

    for i in task["indices"]:
        if runner.past(task.get("deadline")):
            st["probes"]["tasks_cut_short_by_wall_clock_cap"] = 1
            break
        rec = gen_history(i, vseed, runner.POOL, tier)
        rec, res, viol = execute_record(rec)
        st["runs"] += 1
        h = rec["history"]
        st["ops"] += len(h)
        st["len_hist"][len(h) // 10] = st["len_hist"].get(len(h) // 10, 0) + 1
        st["aborts_planned"] += len(rec["faults"])
        st["deep_checked"] += res["deep_checked"]
        st["additions"] += res["additions"]
        st["obj_additions"] += res["obj_additions"]
        st["objects"] += res["objects"]
        st["warm"] += bool(rec["config"]["warm"])
        st["tail_ops"] += len(h) - rec["config"]["tail_from"]
        st["states"].update(res["states"])
        st["transitions"].update(res["transitions"])
        st["nontrivial"].update(res["nontrivial"])
        kinds = {f["at_op"]: f["kind"] for f in rec["faults"]}
        for j, site in res["aborted"].items():
            k = kinds[int(j)]
            st["aborts_fired"][k] = st["aborts_fired"].get(k, 0) + 1
            fsite = site.split(":")[0]
            st["abort_sites"][fsite] = st["abort_sites"].get(fsite, 0) + 1
            if "random" in site and "bban.py" in site:
                probe("abort_inside_BBAN_random")
            if "germany.py" in site:
                probe("abort_inside_germany_py")
            if "registry.py" in site:
                probe("abort_inside_registry_py")
        seen_text: dict = {}
        last_fail_target = None
        for j, (op, out) in enumerate(zip(h, res["outcomes"])):
            if gen.ops_has_ref(op):
                st["ref_ops"] += 1
                refs = ops.refs_of(op)
                if refs and j - min(refs) >= 10:
                    probe("old_object_used_after_10_later_ops")
            if out[0] == "exc":
                st["exc"][out[1]] = st["exc"].get(out[1], 0) + 1
            if op[0] == "iban" and isinstance(op[1], str):
                flag = bool(op[2].get("validate_bban"))
                prev = seen_text.get(op[1])
                if prev is not None and prev != flag:
                    probe("same_text_under_both_validate_bban_values")
                seen_text[op[1]] = flag
            tg = rec["targets"][j]
            if last_fail_target is not None and tg == last_fail_target and out[0] == "ok":
                probe("failing_call_then_success_on_same_singleton")
            last_fail_target = tg if (out[0] in ("exc", "aborted") and tg) else None
        if task.get("digests"):
            st["digests"].append([i, res["event_digest"]])
        if len(st["refsample"]) < 2:
            for j, op in enumerate(h):
                if not gen.ops_has_ref(op) and str(j) not in res["aborted"] and j not in res["aborted"]:
                    st["refsample"].append([op, res["outcomes"][j]])
                    break
        if viol is not None:
            st["violation_count"] += 1
            if len(st["violations"]) < 3:
                v = dict(rec)
                v["violation"] = viol
                v["event_log_sha256"] = res["event_digest"]
                st["violations"].append(v)
        elif len(st["samples"]) < 1 and 3 <= len(h) <= 10 and res["aborted"]:
            st["samples"].append({"run_index": i, "config": rec["config"], "history": h, "faults": rec["faults"],
                                  "outcomes": [o[:2] if o[0] != "ok" else ["ok"] for o in res["outcomes"]]})
    for k in ("states", "transitions", "nontrivial"):
        st[k] = sorted(st[k])
    return st


# ---------------------------------------------------------------------------------------------
# confirm / minimise / replay
# ---------------------------------------------------------------------------------------------


def confirm(rec: dict, deep_each_op: bool = False) -> dict | None:
    r = json.loads(json.dumps(rec))
    r.pop("violation", None)
    if deep_each_op:
        r["config"]["deep"] = True
    r2, res, viol = execute_record(r, deep_each_op)
    if viol is None:
        return None
    r2["violation"] = viol
    r2["event_log_sha256"] = res["event_digest"]
    return r2


def drop_op(rec: dict, j: int) -> dict | None:
    """History without op j (refs and faults renumbered); None if a later op refers to it."""
    h = rec["history"]
    for i, op in enumerate(h):
        if i != j and j in ops.refs_of(op):
            return None
    c = json.loads(json.dumps(rec))

    def remap(x):
        if isinstance(x, dict):
            if "ref" in x and len(x) == 1:
                return {"ref": x["ref"] - (x["ref"] > j)}
            return {k: remap(v) for k, v in x.items()}
        if isinstance(x, list):
            return [remap(y) for y in x]
        return x

    c["history"] = [[op[0], *remap(op[1:])] for i, op in enumerate(h) if i != j]
    c["targets"] = [t for i, t in enumerate(rec["targets"]) if i != j]
    c["faults"] = [dict(f, at_op=f["at_op"] - (f["at_op"] > j)) for f in rec["faults"] if f["at_op"] != j]
    if c["config"].get("tail_from", 0) > j:
        c["config"]["tail_from"] -= 1
    return c


def minimise(rec: dict) -> dict:
    want = report.class_key(rec)
    orig = {"ops": len(rec["history"]), "faults": len(rec["faults"])}
    best = rec
    budget = 400
    need_deep = rec["violation"]["kind"] == "registry-modified"

    def attempt(c) -> bool:
        nonlocal best, budget
        if c is None or budget <= 0:
            return False
        budget -= 1
        try:
            got = confirm(c, deep_each_op=False)
        except core.HarnessError:
            return False
        if got is not None and report.class_key(got) == want:
            best = got
            return True
        return False

    if need_deep:
        best["config"]["deep"] = True
    if best["config"].get("warm"):
        c = json.loads(json.dumps(best))
        c["config"]["warm"] = False
        attempt(c)
    # drop ops after the violating one first, then everything else, largest index first
    changed = True
    while changed and budget > 0:
        changed = False
        for j in range(len(best["history"]) - 1, -1, -1):
            if best["violation"].get("op_index") == j and best["violation"]["kind"] != "registry-modified":
                continue
            if attempt(drop_op(best, j)):
                changed = True
                break
    # drop faults
    for f in list(best["faults"]):
        c = json.loads(json.dumps(best))
        c["faults"] = [g for g in c["faults"] if g != f]
        attempt(c)
    # localise
    try:
        got = confirm(best, deep_each_op=True)
        if got is not None and report.class_key(got) == want:
            best = got
    except core.HarnessError:
        pass
    best["minimised_from"] = orig
    best["minimised_to"] = {"ops": len(best["history"]), "faults": len(best["faults"])}
    return best


def setup_process() -> None:
    runner.bootstrap()
    pool = runner.build_pool_isolated()
    runner.WARM_BATTERY[:] = runner.default_warm_battery(pool)
    BATTERY[:] = [(op, tg) for op, tg in battery(pool)]
    cb = [(["iban_props", pool["valid_ibans"][cc][0]], None) for cc in pool["countries"] if pool["valid_ibans"].get(cc)]
    cb += [(["bic_validate", pool["bics"]["by_country"][cc][0], False], None) for cc in pool["countries"]]
    COUNTRY_BATTERY[:] = cb
    ensure_views()


def replay(path: str) -> int:
    with open(path, encoding="utf-8") as fp:
        rec = json.load(fp)
    setup_process()
    want = report.class_key(rec)
    if rec["violation"]["kind"] == "outcome-differs-in-fresh-interpreter":
        viol = fresh_disagreement(rec["violation"]["op"], rec["violation"]["hashseed"])
        digest = "n/a"
    else:
        got = confirm(rec, deep_each_op=False)
        viol = got and got["violation"]
        digest = got and got["event_log_sha256"]
    print(f"replay {path}: tree={core.src_dir()} event_log_sha256={digest}")
    if viol is not None and core.jdump(viol["signature"]) == want:
        same = digest == rec.get("event_log_sha256")
        print(f"REPRODUCED property={PROP} class={want} exact_event_log={'yes' if same else 'no'}")
        print("  " + viol["detail"])
        print(f"VIOLATION property={PROP} replay={path}")
        return core.EXIT_VIOLATION
    print(f"NOT REPRODUCED property={PROP} (violation now: {viol and viol['signature']})")
    return core.EXIT_OK


# ---------------------------------------------------------------------------------------------
# fresh-interpreter references (ties "fresh process" to a real new process and another hash seed)
# ---------------------------------------------------------------------------------------------


def fresh_solo(op, hashseed: str):
    res = isolate.fresh_python([SCRIPT, "--solo-json", core.jdump(op)], hashseed=hashseed, timeout=120,
                               env_extra={"VERIF_NO_REEXEC": "1"})
    if res.returncode != 0:
        raise core.HarnessError(f"fresh interpreter solo failed rc={res.returncode}: {res.stderr.decode()[-800:]}")
    line = [ln for ln in res.stdout.decode().splitlines() if ln.startswith("OUTCOME ")][-1]
    return json.loads(line[len("OUTCOME "):])


def fresh_disagreement(op, hashseed: str) -> dict | None:
    want = runner.solo(op)["outcome"]
    got = fresh_solo(op, hashseed)
    if got != want:
        return {"kind": "outcome-differs-in-fresh-interpreter", "op": op, "hashseed": hashseed,
                "signature": {"kind": "outcome-differs-in-fresh-interpreter", "op_kind": op[0]},
                "expected": want, "observed": got,
                "detail": f"{core.jdump(op)[:200]} -> {core.jdump(want)[:200]} in a pristine fork but "
                          f"{core.jdump(got)[:200]} in a fresh interpreter under PYTHONHASHSEED={hashseed}"}
    return None


def solo_json_mode(op_json: str) -> int:
    """Child mode: import the tree under the inherited PYTHONHASHSEED and run one op as first call."""
    import warnings

    warnings.simplefilter("ignore")
    core.import_tree(core.install_tree())
    out, _ = ops.execute(json.loads(op_json))
    print("OUTCOME " + core.jdump(out))
    return 0


def _fresh_task(item):
    op, hs = item
    return fresh_disagreement(op, hs)


# ---------------------------------------------------------------------------------------------
# main
# ---------------------------------------------------------------------------------------------


def main() -> int:
    ap = argparse.ArgumentParser()
    ap.add_argument("--tier", default=os.environ.get("VERIF_TIER", "quick"), choices=["quick", "thorough"])
    ap.add_argument("--replay")
    ap.add_argument("--solo-json")
    ap.add_argument("--runs", type=int)
    ap.add_argument("--fresh", type=int)
    ap.add_argument("--digests", action="store_true")
    ap.add_argument("--no-evidence", action="store_true")
    args = ap.parse_args()
    if args.solo_json:
        return solo_json_mode(args.solo_json)
    if args.replay:
        return replay(args.replay)

    timer = runner.Timer()
    setup_process()
    vseed = core.verif_seed()
    print(f"VERIF_SEED={vseed} property={PROP} tier={args.tier} tree={core.src_dir()} workers={core.workers()}")
    nruns = args.runs if args.runs is not None else int(os.environ.get("VERIF_RUNS") or (6000 if args.tier == "quick" else 80_000))
    probe_key = (runner.POOL["bank_keys"]["single"] or runner.POOL["bank_keys"]["missing"])[0]
    cold_cost = runner.lines(["bic_candidates", *probe_key])
    lazy_tree = cold_cost > 20000  # deterministic: library lines the first lookup of a process passes
    if lazy_tree and args.runs is None and not os.environ.get("VERIF_RUNS"):
        nruns //= 4
        print(f"note: the first lookup of a process passes {cold_cost} library lines: lazily initialising tree, every "
              f"pristine reference fork pays for the initialisation; exploring {nruns} histories instead of {nruns * 4}")
    nfresh = args.fresh if args.fresh is not None else (32 if args.tier == "quick" else 256)
    deadline = runner.wall_cap(args.tier)
    tasks = [{"indices": ch, "vseed": vseed, "tier": args.tier, "digests": args.digests, "deadline": deadline}
             for ch in runner.chunks(list(range(nruns)), 100 if nruns > 20000 else 20)]
    wp = isolate.Pool(core.workers())
    agg = {k: 0 for k in ("runs", "ops", "aborts_planned", "deep_checked", "additions", "obj_additions", "objects",
                          "ref_ops", "warm", "tail_ops", "violation_count")}
    states, transitions, nontrivial = set(), set(), set()
    fired: dict = {}
    abort_sites: dict = {}
    exc: dict = {}
    probes: dict = {}
    len_hist: dict = {}
    violations: list = []
    samples: list = []
    digests: list = []
    refsample: list = []
    limit = max(7000 if args.tier == "thorough" else 1500, (deadline - __import__("time").time()) + 900)
    try:
        for task, st in wp.map_unordered(worker_task, tasks, timeout=limit):
            for k in agg:
                agg[k] += st[k]
            states.update(st["states"])
            transitions.update(st["transitions"])
            nontrivial.update(st["nontrivial"])
            for src, dst in ((st["aborts_fired"], fired), (st["abort_sites"], abort_sites), (st["exc"], exc),
                             (st["probes"], probes), (st["len_hist"], len_hist)):
                for k, v in src.items():
                    dst[k] = dst.get(k, 0) + v
            violations.extend(st["violations"])
            if len(samples) < 3:
                samples.extend(st["samples"])
            digests.extend(st["digests"])
            refsample.extend([task["indices"][0], *x] for x in st["refsample"])
        explore_wall = timer.elapsed()
        print(f"exploration finished after {explore_wall:.1f}s; violations_seen={agg['violation_count']}")
        sys.stdout.flush()
        # fresh-interpreter agreement on a deterministic sample of executed ops
        refsample.sort(key=lambda x: (x[0], core.jdump(x[1])))
        step = max(1, len(refsample) // max(1, nfresh))
        chosen = refsample[::step][:nfresh]
        fresh_checked = 0
        for (idx, op, _), viol in _fresh_all(wp, chosen):
            fresh_checked += 1
            if viol is not None:
                violations.append({"property": PROP, "engine": core.ENGINE_VERSION, "verif_seed": vseed,
                                   "run_index": f"fresh-{idx}", "history": [op], "targets": [None], "faults": [],
                                   "config": {"warm": False}, "violation": viol})
                agg["violation_count"] += 1
    finally:
        wp.close()
    if args.digests:
        for idx, d in sorted(digests):
            print(f"DIGEST {idx} {d}")
    violations.sort(key=lambda r: str(r["run_index"]))

    def confirm_any(rec):
        if rec["violation"]["kind"] == "outcome-differs-in-fresh-interpreter":
            v = fresh_disagreement(rec["violation"]["op"], rec["violation"]["hashseed"])
            if v is None:
                return None
            r = dict(rec)
            r["violation"] = v
            return r
        return confirm(rec)

    def minimise_any(rec):
        if rec["violation"]["kind"] == "outcome-differs-in-fresh-interpreter":
            return rec
        return minimise(rec)

    unlisted = report.process(PROP, violations, confirm_any, minimise_any, SCRIPT)
    wall = timer.elapsed()
    for name in ("same_text_under_both_validate_bban_values", "failing_call_then_success_on_same_singleton",
                 "abort_inside_germany_py", "abort_inside_BBAN_random", "old_object_used_after_10_later_ops"):
        probes.setdefault(name, 0)
        if probes[name] == 0:
            print(f"warning: probe {name} never fired")
    cov = {
        "evaluations": agg["runs"],
        "distinct_nontrivial": len(nontrivial),
        "rule": "one evaluation = one simulated call history (1-40 generated calls plus a tail drawn from a fixed probe "
                "battery) run in its own fork of a pristine process; distinct = distinct (state fingerprint before the "
                "call, call kind, target object) transitions, the fingerprint being the scratch state of every algorithm "
                "singleton plus the pycountry-loaded flag; non-trivial = the call is routed to a process-wide object "
                "that an earlier call of the same history already touched",
        "samples": samples[:3] or [{"note": "no short sample with a fired abort in this run"}],
        "distinct_states": len(states), "distinct_transitions": len(transitions),
        "ops_executed": agg["ops"], "ops_using_earlier_objects": agg["ref_ops"],
        "objects_snapshotted": agg["objects"], "battery_tail_ops": agg["tail_ops"], "battery_size": len(BATTERY),
        "histories_with_deep_registry_digest": agg["deep_checked"],
        "histories_with_shallow_registry_digest": agg["runs"],
        "fresh_interpreter_references_checked": fresh_checked, "fresh_interpreter_hashseed": FRESH_HASHSEED,
        "history_length_histogram_by_tens": {str(k): v for k, v in sorted(len_hist.items())},
        "runs_per_hour": int(agg["runs"] / wall * 3600) if wall > 0 else 0,
        "seeds": {"verif_seed": vseed, "first_run_index": 0, "last_run_index": nruns - 1,
                  "derivation": "sha256(f'{VERIF_SEED}:C15:{i}')[:16]"},
        "simulated_time": "n/a (library has no clock; logical steps only)",
        "faults_fired": {"mid_call_abort_SimAbort": fired.get("SimAbort", 0),
                         "mid_call_abort_MemoryError": fired.get("MemoryError", 0),
                         "aborts_planned": agg["aborts_planned"],
                         "failing_calls_by_input": sum(exc.values()),
                         "warm_process_state_histories": agg["warm"]},
        "abort_sites_by_file": abort_sites,
        "exception_classes_seen": exc,
        "probes": dict(probes, registry_or_object_additions_seen=agg["additions"] + agg["obj_additions"],
                       registry_values_no_view_could_inspect=len(state.OPAQUE)),
        "components": {"real": ["schwifty (tree under test)", "pycountry", "rstr", "re", "json", "bundled registries"],
                       "stub": ["call sequence / mid-call aborts (sys.monitoring LINE callback raising SimAbort or MemoryError)"]},
        "violations_seen": agg["violation_count"],
        "cold_start_cost_in_library_lines": cold_cost, "histories_reduced_for_lazy_tree": lazy_tree,
        "tree_sha256": core.tree_digest(),
    }
    if not args.no_evidence:
        evidence.write(PROP, args.tier, vseed, cov, wall, unlisted, [
            "reference outcome of a call = its outcome as the only call in a pristine fork of a process that imported the package and made no call; a sample is re-derived in fresh interpreters under another PYTHONHASHSEED",
            "history independence is judged through the op language of sim/ops.py; an API not in it is not covered",
            "digests have preservation semantics: additions are counted, not flagged",
            "sampling, not enumeration",
        ])
    print(f"C15 {args.tier}: histories={agg['runs']} ops={agg['ops']} states={len(states)} transitions={len(transitions)} "
          f"nontrivial={len(nontrivial)} aborts_fired={sum(fired.values())} deep={agg['deep_checked']} fresh={fresh_checked} "
          f"violations_seen={agg['violation_count']} unlisted_classes={unlisted} wall={wall:.1f}s")
    if unlisted:
        return core.EXIT_VIOLATION
    if probes.get("tasks_cut_short_by_wall_clock_cap"):
        raise core.HarnessError("incomplete exploration: the wall-clock safety cap cut tasks short; a truncated run is "
                                "never reported as a pass (raise VERIF_WALL_CAP or lower --runs)")
    return core.EXIT_OK


def _fresh_all(wp, chosen):
    items = {core.jdump(c[1]): c for c in chosen}
    for item, viol in wp.map_unordered(_fresh_task, [(c[1], FRESH_HASHSEED) for c in items.values()], timeout=1200):
        yield items[core.jdump(item[0])], viol


if __name__ == "__main__":
    core.main_wrapper(main)
