"""Determinism and sensitivity self-tests of the simulator (see checks/selftest.py).

Sensitivity mutants are textual patches applied to a scratch copy of the package made under a
``mkdtemp`` directory outside /repo and /verif and removed immediately afterwards; checks are pointed
at it with SCHWIFTY_SRC.  "flag" mutants must make the named check exit 1 with a VIOLATION line;
"pass" rewrites are behaviour-preserving and must leave it at exit 0 (the false-alarm guard).
"""

from __future__ import annotations

import os
import shutil
import subprocess
import sys
import tempfile
import time
from concurrent.futures import ThreadPoolExecutor

VERIF = os.path.dirname(os.path.dirname(os.path.abspath(__file__)))
PY = sys.executable
REPO = os.environ.get("SCHWIFTY_SRC", "/repo")

GER = "schwifty/checksum/germany.py"
CHK = "schwifty/checksum/__init__.py"
BBAN = "schwifty/bban.py"
IBAN = "schwifty/iban.py"
BIC = "schwifty/bic.py"
REG = "schwifty/registry.py"

RACE_FIX = '''    @property
    def remainder(self) -> int:
        return getattr(self._scratch, "remainder", 0)

    @remainder.setter
    def remainder(self, value: int) -> None:
        self._scratch.remainder = value

'''

LAZY_INDEX_REG = ('''def has(name: Key) -> bool:
    return name in _registry


def get(name: Key) -> Value:
    if has(name):
        return _registry[name]
''', '''_lazy: dict = {}


def has(name: Key) -> bool:
    return name in _registry


def get(name: Key) -> Value:
    if has(name):
        return _registry[name]
    if name in _lazy:
        base_name, key = _lazy[name]
        index: dict = {}
        save(name, index)
        for entry in get(base_name):
            index_key = tuple(entry[k] for k in key)
            if index_key and all(index_key):
                index.setdefault(index_key, []).append(entry)
        return index
''')
LAZY_INDEX_BIC = ('''registry.build_index(
    "bank",
    index_name="bank_code",
    key=("country_code", "bank_code"),
    accumulate=True,
)''', '''registry._lazy["bank_code"] = ("bank", ("country_code", "bank_code"))''')

MUTANTS = [
    # ---------------------------------------------------------------- C14
    dict(id="m14_race_reintroduced", prop="C14", expect="flag", patches=[(GER, RACE_FIX, "")]),
    dict(id="m14_iso_singleton_scratch", prop="C14", expect="flag", patches=[
        (CHK, '''    def compute(self, components: list[str]) -> str:
        return iso7064(self.pre_process(components), 97, self.post_process)''',
         '''    def compute(self, components: list[str]) -> str:
        self._n = self.pre_process(components)
        return iso7064(self._n, 97, self.post_process)'''),
        (IBAN, '''_spec_to_re: dict[str, str]''', '''_ISO = ISO7064_mod97_10()
_spec_to_re: dict[str, str]'''),
        (IBAN, '''        checksum_algo = ISO7064_mod97_10()
        return cls(''', '''        checksum_algo = _ISO
        return cls('''),
        (IBAN, '''        checksum_algo = ISO7064_mod97_10()
        if self.numeric''', '''        checksum_algo = _ISO
        if self.numeric'''),
    ]),
    dict(id="m14_numerify_scratch_list", prop="C14", expect="flag", patches=[
        (CHK, '''def numerify(value: str) -> int:
    return int("".join(str(_alphabet.index(c)) for c in value))''',
         '''_scratch: list[str] = []


def numerify(value: str) -> int:
    _scratch.clear()
    for c in value:
        _scratch.append(str(_alphabet.index(c)))
    return int("".join(_scratch))''')]),
    dict(id="m14_lazy_index_published_early", prop="C14", expect="flag", patches=[(REG, *LAZY_INDEX_REG), (BIC, *LAZY_INDEX_BIC)]),
    dict(id="m14_shared_rstr", prop="C14", expect="flag", patches=[
        (BBAN, '''@dataclass
class Range:''', '''_RSTR = Rstr()


@dataclass
class Range:'''),
        (BBAN, '''        rstr = Rstr(random)''', '''        rstr = _RSTR
        rstr._random = random''')]),
    dict(id="p14_lock_repair", prop="C14", expect="pass", patches=[
        (GER, RACE_FIX, ""),
        (CHK, '''from schwifty.domain import Component
''', '''import threading

from schwifty.domain import Component


def _locked(fn, lock):
    def wrapper(*args, **kwargs):
        with lock:
            return fn(*args, **kwargs)

    return wrapper
'''),
        (CHK, '''            algorithms[f"{prefix}:{key}"] = algorithm_cls()''', '''            inst = algorithm_cls()
            lock = threading.RLock()
            inst.compute = _locked(inst.compute, lock)
            inst.validate = _locked(inst.validate, lock)
            algorithms[f"{prefix}:{key}"] = inst''')]),
    dict(id="p14_lru_cache_numerify", prop="C14", expect="pass", patches=[
        (CHK, '''def numerify(value: str) -> int:''', '''import functools


@functools.lru_cache(maxsize=None)
def numerify(value: str) -> int:''')]),
    dict(id="m14_lock_order_deadlock", prop="C14", expect="flag", patches=[
        (BIC, '''_bic_iso9362_re =''', '''import threading

_lock_a = threading.Lock()
_lock_b = threading.Lock()
_bic_iso9362_re ='''),
        (BIC, '''        try:
            index = registry.get("bank_code")
            assert isinstance(index, dict)
            banks = sorted(''', '''        try:
            with _lock_a:
                with _lock_b:
                    index = registry.get("bank_code")
            assert isinstance(index, dict)
            banks = sorted('''),
        (BIC, '''        spec = registry.get("bic")
        assert isinstance(spec, dict)
        entries = spec.get(str(self), [])''', '''        with _lock_b:
            with _lock_a:
                spec = registry.get("bic")
        assert isinstance(spec, dict)
        entries = spec.get(str(self), [])''')]),
    dict(id="m14_torn_lazy_attribute_on_shared_object", prop="C14", expect="flag", patches=[
        (IBAN, '''    @property
    def numeric(self) -> int:
        """int: A numeric represenation of the IBAN."""
        return numerify(self.bban + self[:4])''', '''    @property
    def numeric(self) -> int:
        """int: A numeric represenation of the IBAN."""
        if "_numeric" not in self.__dict__:
            self.__dict__["_numeric"] = None
            self.__dict__["_numeric"] = numerify(self.bban + self[:4])
        return self.__dict__["_numeric"]''')]),
    dict(id="p14_condition_single_flight_init", prop="C14", expect="pass", patches=[
        (BIC, '''_bic_iso9362_re =''', '''import threading

_cond = threading.Condition()
_state = {"building": False, "ready": False, "table": None}


def _ensure_table() -> None:
    with _cond:
        while _state["building"]:
            _cond.wait()
        if _state["ready"]:
            return
        _state["building"] = True
    table = {}
    for i in range(40):
        table[i] = str(i)
    with _cond:
        _state["table"] = table
        _state["building"] = False
        _state["ready"] = True
        _cond.notify_all()


_bic_iso9362_re ='''),
        (BIC, '''        try:
            index = registry.get("bank_code")
            assert isinstance(index, dict)
            banks = sorted(''', '''        _ensure_table()
        try:
            index = registry.get("bank_code")
            assert isinstance(index, dict)
            banks = sorted(''')], note="correct Condition-based single-flight initialisation: waiters are SimLocks, must neither hang nor alarm"),
    dict(id="p14_event_wait_with_timeout", prop="C14", expect="pass", patches=[
        (BIC, '''_bic_iso9362_re =''', '''import threading

_never_set = threading.Event()
_poll_lock = threading.Lock()
_bic_iso9362_re ='''),
        (BIC, '''        try:
            index = registry.get("bank_code")
            assert isinstance(index, dict)
            banks = sorted(''', '''        _never_set.wait(0.001)  # a timed wait that simply expires
        got = _poll_lock.acquire(timeout=0.001)  # a timed acquire with a lock-free fallback
        if got:
            _poll_lock.release()
        try:
            index = registry.get("bank_code")
            assert isinstance(index, dict)
            banks = sorted(''')], note="timed waits must time out in the simulation (when nothing else can run), not be reported as a deadlock"),
    dict(id="m14_condition_missing_notify", prop="C14", expect="flag", patches=[
        (BIC, '''_bic_iso9362_re =''', '''import threading

_cond = threading.Condition()
_state = {"building": False, "ready": False, "table": None}


def _ensure_table() -> None:
    with _cond:
        while _state["building"]:
            _cond.wait()
        if _state["ready"]:
            return
        _state["building"] = True
    table = {}
    for i in range(40):
        table[i] = str(i)
    with _cond:
        _state["table"] = table
        _state["building"] = False
        _state["ready"] = True


_bic_iso9362_re ='''),
        (BIC, '''        try:
            index = registry.get("bank_code")
            assert isinstance(index, dict)
            banks = sorted(''', '''        _ensure_table()
        try:
            index = registry.get("bank_code")
            assert isinstance(index, dict)
            banks = sorted(''')], note="waiters are never notified: lost wake-up, reported as deadlock"),
    # ---------------------------------------------------------------- C15
    dict(id="m15_memo_ignores_flags", prop="C15", expect="flag", patches=[
        (IBAN, '''_spec_to_re: dict[str, str]''', '''_validated: set = set()
_spec_to_re: dict[str, str]'''),
        (IBAN, '''        if not allow_invalid:
            self.validate(validate_bban)''', '''        if not allow_invalid and str(self) not in _validated:
            self.validate(validate_bban)
            _validated.add(str(self))''')]),
    dict(id="m15_candidates_sort_in_place", prop="C15", expect="flag", patches=[
        (BIC, '''            banks = sorted(
                index[(country_code, bank_code)], key=itemgetter("primary"), reverse=True
            )''', '''            banks = index[(country_code, bank_code)]
            banks.sort(key=itemgetter("primary"), reverse=True)''')]),
    dict(id="m15_pop_checksum_algo", prop="C15", expect="flag", patches=[
        (BBAN, '''        algo_name = bank.get("checksum_algo", "default")''', '''        algo_name = bank.pop("checksum_algo", "default")''')]),
    dict(id="m15_compute_early_return_stale_remainder", prop="C15", expect="flag", patches=[
        (GER, '''        [account_code] = components
        digits = self.get_digits(self.adjust_input(account_code))
        self.remainder =''', '''        [account_code] = components
        if account_code.endswith("00"):
            return "0"
        digits = self.get_digits(self.adjust_input(account_code))
        self.remainder =''')]),
    dict(id="m15_random_writes_pinned_into_bank", prop="C15", expect="flag", patches=[
        (BBAN, '''                if (value := values.get(key)) is not None:
                    components[key] = value''', '''                if (value := values.get(key)) is not None:
                    components[key] = value
                    if bank:
                        bank[key.value] = value''')]),
    dict(id="m15_lazy_index_half_filled_by_abort", prop="C15", expect="flag", patches=[(REG, *LAZY_INDEX_REG), (BIC, *LAZY_INDEX_BIC)]),
    dict(id="p15_memo_keyed_by_all_arguments", prop="C15", expect="pass", patches=[
        (IBAN, '''_spec_to_re: dict[str, str]''', '''_validated: set = set()
_spec_to_re: dict[str, str]'''),
        (IBAN, '''        if not allow_invalid:
            self.validate(validate_bban)''', '''        if not allow_invalid and (str(self), validate_bban) not in _validated:
            self.validate(validate_bban)
            _validated.add((str(self), validate_bban))''')]),
    dict(id="p15_cached_property_on_objects", prop="C15", expect="pass", patches=[
        (IBAN, '''    @property
    def numeric(self) -> int:''', '''    @functools.cached_property
    def numeric(self) -> int:'''),
        (IBAN, '''import re
from random import Random''', '''import functools
import re
from random import Random''')]),
    dict(id="p15_with_lock_around_spec_lookup", prop="C15", expect="pass", patches=[
        (BBAN, '''def _get_bban_spec(country_code: str) -> dict[str, Any]:
    try:
        spec = registry.get("iban")
        assert isinstance(spec, dict)
        return spec[country_code]''', '''import threading

_spec_lock = threading.Lock()
_spec_hits: dict[str, int] = {}


def _get_bban_spec(country_code: str) -> dict[str, Any]:
    try:
        with _spec_lock:
            spec = registry.get("iban")
            assert isinstance(spec, dict)
            found = spec[country_code]
            _spec_hits[country_code] = _spec_hits.get(country_code, 0) + 1
            return found''')], note="a correct `with lock:` section on a hot path: injected aborts must not leak the lock (no abort at the with-exit clean-up)"),
    dict(id="p15_acquire_try_finally_release", prop="C15", expect="pass", patches=[
        (REG, '''def get(name: Key) -> Value:
    if has(name):
        return _registry[name]
''', '''import threading

_get_lock = threading.Lock()


def get(name: Key) -> Value:
    if has(name):
        return _registry[name]
    _get_lock.acquire()
    try:
        return _get_unlocked(name)
    finally:
        _get_lock.release()


def _get_unlocked(name: Key) -> Value:
    if has(name):
        return _registry[name]
''')], note="hand-written acquire/try/finally/release: no abort at the NOP of try: nor at the first instruction after the protected range"),
    dict(id="p15_index_lists_replaced_by_equal_copies", prop="C15", expect="pass", patches=[
        (BIC, '''            index = registry.get("bank_code")
            assert isinstance(index, dict)
            banks = sorted(''', '''            index = registry.get("bank_code")
            assert isinstance(index, dict)
            if (country_code, bank_code) in index:
                index[(country_code, bank_code)] = [dict(e) for e in index[(country_code, bank_code)]]
            banks = sorted(''')], note="an index list is rebuilt with equal copies: content, order and membership preserved - an addition, not a modification"),
    # ---------------------------------------------------------------- C13
    dict(id="m13_country_from_hash_ordered_set", prop="C13", expect="flag", patches=[
        (BBAN, '''            country_code = random.choice(list(banks_by_country.keys()))''',
         '''            country_code = random.choice(list(set(banks_by_country.keys())))''')]),
    dict(id="m13_bank_from_global_random", prop="C13", expect="flag", patches=[
        (BBAN, '''from random import Random
''', '''import random as _global_random
from random import Random
'''),
        (BBAN, '''            bank = random.choice(banks)''', '''            bank = _global_random.choice(banks)''')]),
    dict(id="m13_fresh_random_despite_supplied", prop="C13", expect="flag", patches=[
        (BBAN, '''        rstr = Rstr(random)''', '''        rstr = Rstr(Random())''')]),
    dict(id="m13_rstr_module_default", prop="C13", expect="flag", patches=[
        (BBAN, '''            bban = rstr.xeger(spec["regex"]).upper()
            components: dict''', '''            import rstr as _rstr_mod

            bban = _rstr_mod.xeger(spec["regex"]).upper()
            components: dict''')]),
    dict(id="m13_pinned_account_truncated", prop="C13", expect="flag", patches=[
        (BBAN, '''                components[key] = value[: ranges[key].length]''',
         '''                components[key] = value[: max(0, ranges[key].length - (key == Component.ACCOUNT_CODE))]''')]),
    dict(id="m13_registry_bank_ignored", prop="C13", expect="flag", patches=[
        (BBAN, '''                    components[key] = bank.get(key) or spec.get(''', '''                    components[key] = spec.get('''),
    ]),
    dict(id="m13_retry_returns_last_failed", prop="C13", expect="flag", patches=[
        (BBAN, '''        else:
            raise exceptions.GenerateRandomOverflowError''', '''        else:
            return cls(country_code, bban)''')]),
    dict(id="p13_sorted_country_choice", prop="C13", expect="pass", patches=[
        (BBAN, '''            country_code = random.choice(list(banks_by_country.keys()))''',
         '''            country_code = random.choice(sorted(banks_by_country))''')], note="changes which country a seed gives, but reproducibly"),
    dict(id="m13_earlier_call_makes_later_draw_drop_a_pin", prop="C13", expect="flag", patches=[
        (BIC, '''_bic_iso9362_re =''', '''SEEN = {"bic": False}
_bic_iso9362_re ='''),
        (BIC, '''        super().__init__()
        if not allow_invalid:
            self.validate(enforce_swift_compliance)''', '''        super().__init__()
        SEEN["bic"] = True
        if not allow_invalid:
            self.validate(enforce_swift_compliance)'''),
        (BBAN, '''        if random is None:
            random = Random()  # noqa: S311
''', '''        if random is None:
            random = Random()  # noqa: S311
        from schwifty import bic as _bic_mod

        if _bic_mod.SEEN["bic"]:
            values = {k: v for k, v in values.items() if k != "account_code"}
''')], note="only the draw after a call history violates (leg after-history must confirm and replay)"),
    dict(id="p13_harmless_clock_and_global_random_use", prop="C13", expect="pass", patches=[
        (BBAN, '''from random import Random
''', '''import random as _global_random
import time as _time
from random import Random

_stats = {"draws": 0, "last": 0.0, "jitter": 0.0}
'''),
        (BBAN, '''        rstr = Rstr(random)''', '''        _stats["draws"] += 1
        _stats["last"] = _time.time()
        _stats["jitter"] = _global_random.random()
        rstr = Rstr(random)''')], note="touches a clock and the global generator for bookkeeping only: result independent, must not be flagged"),
    # ---------------------------------------------------------------- C18
    dict(id="m18_sorted_dropped", prop="C18", expect="flag", patches=[
        (REG, '''for entry in sorted(directory.glob("*.json")):''', '''for entry in directory.glob("*.json"):''')]),
    dict(id="m18_reverse_order", prop="C18", expect="flag", patches=[
        (REG, '''for entry in sorted(directory.glob("*.json")):''', '''for entry in sorted(directory.glob("*.json"), reverse=True):''')]),
    dict(id="m18_sort_by_stem_length", prop="C18", expect="flag", patches=[
        (REG, '''for entry in sorted(directory.glob("*.json")):''', '''for entry in sorted(directory.glob("*.json"), key=lambda p: len(p.stem)):''')]),
    dict(id="m18_merge_left_biased", prop="C18", expect="flag", patches=[
        (REG, '''            merged[key] = right_value''', '''            merged[key] = left_value''')]),
    dict(id="m18_merge_shallow", prop="C18", expect="flag", patches=[
        (REG, '''    merged = {}
    for key in frozenset(right) & frozenset(left):''', '''    return {**left, **right}
    merged = {}
    for key in frozenset(right) & frozenset(left):''')]),
    dict(id="m18_merge_mutates_left", prop="C18", expect="flag", patches=[
        (REG, '''    merged = {}
    for key in frozenset(right) & frozenset(left):''', '''    for key, value in right.items():
        if isinstance(left.get(key), dict) and isinstance(value, dict):
            left[key] = merge_dicts(left[key], value)
        else:
            left[key] = value
    return left
    merged = {}
    for key in frozenset(right) & frozenset(left):''')]),
    dict(id="m18_bank_dedup_by_code", prop="C18", expect="flag", patches=[
        (REG, '''    if data is None:
        raise ValueError(f"Failed to load registry {name}")''', '''    if isinstance(data, list):
        data = list({(e.get("country_code"), e.get("bank_code")): e for e in data}.values())
    if data is None:
        raise ValueError(f"Failed to load registry {name}")''')]),
    dict(id="m18_v2_shares_one_dict", prop="C18", expect="flag", patches=[
        (REG, '''        return [{**entry, dst: value} for value in values]''', '''        out = []
        for value in values:
            entry[dst] = value
            out.append(entry)
        return out''')]),
    dict(id="m18_v2_drops_field", prop="C18", expect="flag", patches=[
        (REG, '''        return [{**entry, dst: value} for value in values]''',
         '''        return [{"country_code": entry["country_code"], "bic": entry["bic"], "name": entry["name"],
                 "short_name": entry["short_name"], "primary": entry["primary"], dst: value} for value in values]''')]),
    dict(id="m18_encoding_dropped", prop="C18", expect="flag", patches=[
        (REG, '''with entry.open(encoding="utf-8") as fp:''', '''with entry.open() as fp:''')]),
    dict(id="m18_skip_unreadable_file", prop="C18", expect="flag", patches=[
        (REG, '''        with entry.open(encoding="utf-8") as fp:
            chunk = json.load(fp)
            if entry.stem.endswith("v2"):
                chunk = parse_v2(chunk)''', '''        try:
            with entry.open(encoding="utf-8") as fp:
                chunk = json.load(fp)
        except (OSError, ValueError):
            continue
        if True:
            if entry.stem.endswith("v2"):
                chunk = parse_v2(chunk)''')]),
    dict(id="m18_cache_before_last_file", prop="C18", expect="flag", patches=[
        (REG, '''            elif isinstance(data, dict):
                data = merge_dicts(data, chunk)''', '''            elif isinstance(data, dict):
                data = merge_dicts(data, chunk)
            save(name, data)''')]),
    dict(id="p18_sorted_by_name_key", prop="C18", expect="pass", patches=[
        (REG, '''for entry in sorted(directory.glob("*.json")):''', '''for entry in sorted(directory.glob("*.json"), key=lambda p: p.name):''')]),
    dict(id="p18_iterdir_and_read_text", prop="C18", expect="pass", patches=[
        (REG, '''for entry in sorted(directory.glob("*.json")):''', '''for entry in sorted(p for p in directory.iterdir() if p.name.endswith(".json")):'''),
        (REG, '''        with entry.open(encoding="utf-8") as fp:
            chunk = json.load(fp)
            if entry.stem.endswith("v2"):''', '''        if True:
            chunk = json.loads(entry.read_text(encoding="utf-8"))
            if entry.stem.endswith("v2"):''')]),
    dict(id="p18_iterative_copying_merge", prop="C18", expect="pass", patches=[
        (REG, '''    merged = {}
    for key in frozenset(right) & frozenset(left):''', '''    import copy

    merged = copy.deepcopy(left)
    stack = [(merged, right)]
    while stack:
        lo, ro = stack.pop()
        for k, v in ro.items():
            if k in lo and isinstance(lo[k], dict) and isinstance(v, dict):
                stack.append((lo[k], v))
            else:
                lo[k] = copy.deepcopy(v)
    return merged
    for key in frozenset(right) & frozenset(left):''')]),
    dict(id="p18_os_listdir_builtin_open", prop="C18", expect="pass", patches=[
        (REG, '''    for entry in sorted(directory.glob("*.json")):
        assert isinstance(entry, Path)
        with entry.open(encoding="utf-8") as fp:''', '''    import os

    for fname in sorted(n for n in os.listdir(directory) if n.endswith(".json")):
        entry = directory / fname
        assert isinstance(entry, Path)
        with open(entry, encoding="utf-8") as fp:''')]),
]

ARGS = {
    "C13": ["checks/c13.py", "--tier", "quick", "--no-evidence"],
    "C14": ["checks/c14.py", "--tier", "quick", "--no-evidence"],
    "C15": ["checks/c15.py", "--tier", "quick", "--no-evidence"],
    "C18": ["checks/c18.py", "--tier", "quick", "--no-evidence"],
}


def run(cmd, env=None, timeout=3600):
    e = dict(os.environ)
    e.update(env or {})
    p = subprocess.run(cmd, cwd=VERIF, env=e, capture_output=True, timeout=timeout, check=False)
    return p.returncode, p.stdout.decode("utf-8", "replace"), p.stderr.decode("utf-8", "replace")


def make_scratch(m: dict) -> str:
    tmp = tempfile.mkdtemp(prefix="schwifty-mut-")
    shutil.copytree(os.path.join(REPO, "schwifty"), os.path.join(tmp, "schwifty"),
                    ignore=shutil.ignore_patterns("__pycache__"))
    for rel, old, new in m["patches"]:
        path = os.path.join(tmp, rel)
        with open(path, encoding="utf-8") as fp:
            src = fp.read()
        if src.count(old) != 1:
            shutil.rmtree(tmp, ignore_errors=True)
            raise RuntimeError(f"mutant {m['id']}: patch anchor found {src.count(old)} times in {rel}")
        with open(path, "w", encoding="utf-8") as fp:
            fp.write(src.replace(old, new))
    return tmp


def run_mutant(m: dict, workers: int) -> tuple:
    t0 = time.time()
    try:
        tmp = make_scratch(m)
    except RuntimeError as e:
        return m, "BROKEN-PATCH", str(e), 0.0
    try:
        rc, out, err = run([PY, *ARGS[m["prop"]]], env={"SCHWIFTY_SRC": tmp, "VERIF_WORKERS": str(workers), "VERIF_WALL_CAP": "3000"})
    finally:
        shutil.rmtree(tmp, ignore_errors=True)
    flagged = rc == 1 and f"VIOLATION property={m['prop']}" in out
    if rc == 2 or (rc not in (0, 1)):
        verdict = "HARNESS-ERROR"
    elif m["expect"] == "flag":
        verdict = "ok" if flagged else "MISSED"
    else:
        verdict = "ok" if rc == 0 else "FALSE-ALARM"
    lines = [ln for ln in out.splitlines() if ln.startswith("VIOLATION") or ln.startswith("  class=")]
    detail = " | ".join(lines[:2])[:300] if lines else (err.strip().splitlines()[-1][:300] if err.strip() else out.strip().splitlines()[-1][:200])
    return m, verdict, detail, time.time() - t0


def sensitivity(argv) -> int:
    only = None
    parallel = 4
    for a in argv:
        if a.startswith("--property="):
            only = a.split("=", 1)[1]
        elif a.startswith("--id="):
            only = a.split("=", 1)[1]
        elif a.startswith("--parallel="):
            parallel = int(a.split("=", 1)[1])
    todo = [m for m in MUTANTS if only is None or m["prop"] == only or m["id"] == only]
    bad = 0
    workers = max(2, 16 // parallel)
    with ThreadPoolExecutor(parallel) as ex:
        for m, verdict, detail, dt in ex.map(lambda m: run_mutant(m, workers), todo):
            print(f"{verdict:13s} {m['prop']} {m['expect']:4s} {m['id']:45s} {dt:6.1f}s  {detail}")
            sys.stdout.flush()
            bad += verdict != "ok"
    print(f"sensitivity: {len(todo) - bad}/{len(todo)} as expected")
    return 0 if bad == 0 else 1


def digests(out: str) -> list[str]:
    return [ln for ln in out.splitlines() if ln.startswith("DIGEST ")]


DET = {
    "C13": (["checks/c13.py", "--runs", "1270", "--digests", "--no-evidence"], ["checks/c13.py", "--runs", "254", "--digests", "--no-evidence"]),
    "C14": (["checks/c14.py", "--runs", "600", "--digests", "--no-evidence", "--no-sweep"], ["checks/c14.py", "--runs", "100", "--digests", "--no-evidence", "--no-sweep"]),
    "C15": (["checks/c15.py", "--runs", "400", "--fresh", "2", "--digests", "--no-evidence"], ["checks/c15.py", "--runs", "100", "--fresh", "1", "--digests", "--no-evidence"]),
    "C18": (["checks/c18.py", "--runs", "400", "60", "200", "40", "--fresh", "2", "--digests", "--no-evidence"],
            ["checks/c18.py", "--runs", "100", "20", "50", "20", "--fresh", "1", "--digests", "--no-evidence"]),
}


def determinism(argv) -> int:
    only = None
    for a in argv:
        if a.startswith("--property="):
            only = a.split("=", 1)[1]
    bad = 0
    for prop, (big, small) in DET.items():
        if only and prop != only:
            continue
        for seed in ("0", "12345"):
            rc1, o1, e1 = run([PY, *big], env={"VERIF_SEED": seed, "VERIF_WORKERS": "16"})
            rc2, o2, e2 = run([PY, *big], env={"VERIF_SEED": seed, "VERIF_WORKERS": "5"})
            rc3, o3, e3 = run([PY, *big], env={"VERIF_SEED": seed, "VERIF_WORKERS": "16", "VERIF_HASHSEED": "31337"})
            d1, d2, d3 = digests(o1), digests(o2), digests(o3)
            ok = rc1 == rc2 == rc3 == 0 and d1 and d1 == d2 == d3
            print(f"{'ok' if ok else 'DIVERGED':9s} {prop} seed={seed} runs={len(d1)} same digests at 16 workers, 5 workers, and under harness hash seed 31337"
                  + ("" if ok else f" (rc {rc1},{rc2},{rc3}; {len(d1)},{len(d2)},{len(d3)} digests; first diff "
                     f"{next((a for a, b in zip(d1, d2) if a != b), None)} / {next((a for a, b in zip(d1, d3) if a != b), None)}) {e1[-300:]}{e3[-300:]}"))
            bad += not ok
        rc4, o4, _ = run([PY, *small], env={"VERIF_SEED": "0", "VERIF_WORKERS": "1"})
        rc5, o5, _ = run([PY, *small], env={"VERIF_SEED": "0", "VERIF_WORKERS": "16"})
        ok = rc4 == rc5 == 0 and digests(o4) and digests(o4) == digests(o5)
        print(f"{'ok' if ok else 'DIVERGED':9s} {prop} seed=0 runs={len(digests(o4))} same digests at 1 worker and 16 workers")
        bad += not ok
        sys.stdout.flush()
    if not only or only == "C14":
        cmd = ["checks/c14.py", "--runs", "50", "--digests", "--no-evidence"]  # with the whole (batched) sweep
        _, a, _ = run([PY, *cmd], env={"VERIF_SEED": "0", "VERIF_WORKERS": "16"})
        _, b, _ = run([PY, *cmd], env={"VERIF_SEED": "0", "VERIF_WORKERS": "7", "VERIF_HASHSEED": "99"})
        ok = digests(a) and digests(a) == digests(b)
        print(f"{'ok' if ok else 'DIVERGED':9s} C14 sweep+random runs={len(digests(a))} same event-log digests at 16 workers and at 7 workers under harness hash seed 99")
        bad += not ok
    print(f"determinism: {'all equal' if not bad else str(bad) + ' divergences'}")
    return 0 if bad == 0 else 1


def _scratch_with_patch(patch_path: str) -> str:
    tmp = tempfile.mkdtemp(prefix="schwifty-seed-")
    shutil.copytree(os.path.join(REPO, "schwifty"), os.path.join(tmp, "schwifty"),
                    ignore=shutil.ignore_patterns("__pycache__"))
    p = subprocess.run(["git", "apply", "--whitespace=nowarn", patch_path], cwd=tmp, capture_output=True, check=False)
    if p.returncode != 0:
        shutil.rmtree(tmp, ignore_errors=True)
        raise RuntimeError(f"{patch_path} does not apply: {p.stderr.decode()[-300:]}")
    return tmp


def _run_patch_job(job):
    """job = (label, patch, prop, expect) with expect in {'flag', 'quiet'}."""
    label, patch, prop, expect = job
    t0 = time.time()
    try:
        tmp = _scratch_with_patch(patch)
    except RuntimeError as e:
        return label, prop, expect, "BROKEN-PATCH", str(e)[:200], 0.0
    try:
        rc, out, err = run([PY, *ARGS[prop]], env={"SCHWIFTY_SRC": tmp, "VERIF_WORKERS": "4", "VERIF_WALL_CAP": "3000"},
                           timeout=7200)
    finally:
        shutil.rmtree(tmp, ignore_errors=True)
    flagged = rc == 1 and f"VIOLATION property={prop}" in out
    if rc not in (0, 1):
        verdict = "HARNESS-ERROR"
    elif expect == "flag":
        verdict = "ok" if flagged else "MISSED"
    else:
        verdict = "ok" if rc == 0 else "ALARM"
    lines = [ln for ln in out.splitlines() if ln.startswith("  class=")]
    detail = (lines[0][:160] if lines else (err.strip().splitlines()[-1][:160] if err.strip() else ""))
    return label, prop, expect, verdict, detail, time.time() - t0


def _seeded_jobs():
    import json

    base = os.path.join(VERIF, "seeded")
    jobs = []
    for sid in sorted(os.listdir(base)):
        meta = json.load(open(os.path.join(base, sid, "meta.json"), encoding="utf-8"))
        for key, what in sorted(meta.get("caught_by", {}).items()):
            prop = key.split()[0]
            if prop not in ARGS or "(later)" in key:
                continue
            now_missed = what.startswith("MISSED -") or what.startswith("MISSED (") and "After" not in what and "after" not in what
            jobs.append((sid, os.path.join(base, sid, "patch.diff"), prop, "quiet-or-flag" if now_missed else "flag"))
    return jobs


def seeded(argv) -> int:
    """Regression over /verif/seeded: every kept change must still be flagged by the checks recorded as catching it."""
    only = next((a.split("=", 1)[1] for a in argv if a.startswith("--id=")), None)
    only_prop = next((a.split("=", 1)[1] for a in argv if a.startswith("--property=")), None)
    parallel = int(next((a.split("=", 1)[1] for a in argv if a.startswith("--parallel=")), 4))
    jobs = [j for j in _seeded_jobs() if (only is None or only in j[0]) and (only_prop is None or j[2] == only_prop)]
    bad = 0
    with ThreadPoolExecutor(parallel) as ex:
        for label, prop, expect, verdict, detail, dt in ex.map(
                lambda j: _run_patch_job((j[0], j[1], j[2], "flag" if j[3] == "flag" else "quiet")), jobs):
            if expect == "quiet":  # recorded as (still) missed: either outcome is informative, none is an error
                verdict = "noted" if verdict in ("ok", "ALARM") else verdict
            print(f"{verdict:13s} {prop} {label:55s} {dt:7.1f}s  {detail}")
            sys.stdout.flush()
            bad += verdict not in ("ok", "noted")
    print(f"seeded regression: {len(jobs) - bad}/{len(jobs)} as recorded")
    return 0 if bad == 0 else 1


def preserving(argv) -> int:
    """Regression over /verif/preserving: behaviour-preserving patches must leave all four quick checks quiet
    (p14-2 on C15 is the recorded true positive)."""
    only = next((a.split("=", 1)[1] for a in argv if a.startswith("--id=")), None)
    only_prop = next((a.split("=", 1)[1] for a in argv if a.startswith("--property=")), None)
    parallel = int(next((a.split("=", 1)[1] for a in argv if a.startswith("--parallel=")), 4))
    base = os.path.join(VERIF, "preserving")
    jobs = []
    for pid in sorted(os.listdir(base)):
        if only is not None and only not in pid:
            continue
        for prop in ("C13", "C14", "C15", "C18"):
            if only_prop is not None and prop != only_prop:
                continue
            expect = "flag" if (pid, prop) == ("p14-2", "C15") else "quiet"
            jobs.append((pid, os.path.join(base, pid, "patch.diff"), prop, expect))
    bad = 0
    with ThreadPoolExecutor(parallel) as ex:
        for label, prop, expect, verdict, detail, dt in ex.map(_run_patch_job, jobs):
            print(f"{verdict:13s} {prop} {expect:5s} {label:10s} {dt:7.1f}s  {detail}")
            sys.stdout.flush()
            bad += verdict != "ok"
    print(f"preserving regression: {len(jobs) - bad}/{len(jobs)} as expected")
    return 0 if bad == 0 else 1


def main(what: str, argv) -> int:
    if what == "seeded":
        return seeded(argv)
    if what == "preserving":
        return preserving(argv)
    if what == "sensitivity":
        return sensitivity(argv)
    if what == "determinism":
        return determinism(argv)
    print(f"unknown self-test {what}", file=sys.stderr)
    return 2
