#!/venv/bin/python
"""C14 — concurrent use gives every caller the answer it would get alone.

Deterministic simulation: 2–3 real threads run library calls under a baton-passing scheduler whose
every decision comes from the run seed; each call's outcome must equal the outcome of the same call
run alone in a pristine process.  See DESIGN.md §2.4 and §3.
"""

from __future__ import annotations

import argparse
import json
import os
import random
import sys

sys.path.insert(0, os.path.dirname(os.path.dirname(os.path.abspath(__file__))))

from sim import core, evidence, gen, isolate, ops, report, runner, sched  # noqa: E402

PROP = "C14"
MAX_STEPS = 20000
SCRIPT = os.path.join("checks", "c14.py")


# ---------------------------------------------------------------------------------------------
# generation
# ---------------------------------------------------------------------------------------------


COLD_EXPENSIVE = False  # set in main(): the first library call of a process passes more line events than the step cap


def gen_run(index: int, vseed: int, pool: dict) -> dict:
    seed = core.run_seed(vseed, PROP, index)
    rng = random.Random(seed)
    n = 2 if rng.random() < 0.7 else 3
    granularity = "opcode" if rng.random() < 0.2 else "line"
    # a tree that initialises lazily makes every cold run pay for the initialisation under tracing; it still gets
    # cold runs (that is where its races live), but fewer of them
    warm = rng.random() < (0.9 if COLD_EXPENSIVE else 0.3)
    if warm and rng.random() < 0.3:
        warm = "heavy"  # plus ~220 distinct bank-code lookups: fills any bounded cache a change may have added
    threads: list[list] = [[] for _ in range(n)]
    targets: list[list] = [[] for _ in range(n)]
    r_mode = rng.random()
    mode = "conflict" if r_mode < 0.55 else "shared" if r_mode < 0.7 else "mixed"
    setup: list = []
    if mode == "shared":
        # objects created before the threads start and then used by several threads at once
        vi = pool["valid_ibans"]
        for _ in range(1 + rng.randrange(2)):
            r = rng.randrange(5)
            if r == 0 and pool["lookup_ibans"]:
                setup.append(["iban", rng.choice(pool["lookup_ibans"]), {}])
            elif r == 1:
                key = rng.choice(sorted(pool["de_ibans"]))
                rows = pool["de_ibans"][key] or [[vi["DE"][0], "x"]]
                setup.append(["iban", rng.choice(rows)[0], {"allow_invalid": True}])
            elif r == 2:
                setup.append(["bic", rng.choice(pool["bics"]["registry"]), {}])
            elif r == 3:
                cc = rng.choice([c for c in pool["countries"] if pool["components"].get(c)])
                setup.append(["bban", cc, rng.choice(pool["components"][cc])[3]])
            else:
                cc = rng.choice([c for c in pool["countries"] if vi[c]])
                setup.append(["iban", rng.choice(vi[cc]), {}])
        kinds = ["props", "props", "revalidate", "checksum_of", "bank_of", "cmp", "copy", "deepcopy", "pickle", "sorted"]
        for t in range(n):
            for _ in range(1 + rng.randrange(3)):
                j = rng.randrange(len(setup))
                k = rng.choice(kinds)
                if setup[j][0] == "bic" and k in ("checksum_of", "bank_of"):
                    k = "props"
                if k == "revalidate":
                    op = ["revalidate", {"ref": j}, bool(rng.randrange(2))]
                elif k == "cmp":
                    op = ["cmp", {"ref": j}, {"ref": rng.randrange(len(setup))}]
                elif k == "sorted":
                    op = ["sorted", [{"ref": rng.randrange(len(setup))} for _ in range(2)]]
                else:
                    op = [k, {"ref": j}]
                threads[t].append(op), targets[t].append(f"obj:{j}")
            if rng.random() < 0.3:
                op, tg = gen.gen_op(rng, pool)
                threads[t].append(op), targets[t].append(tg)
    elif mode == "conflict":
        (a, ta), (b, tb) = gen.gen_conflict_pair(rng, pool)
        threads[0].append(a), targets[0].append(ta)
        threads[1].append(b), targets[1].append(tb)
        if n == 3:
            if rng.random() < 0.5:
                op, _, _ = gen.gen_de_algo(rng, pool, ta)
                threads[2].append(op), targets[2].append(ta)
            else:
                op, t = gen.gen_op(rng, pool)
                threads[2].append(op), targets[2].append(t)
        weights = None
        for t in range(n):
            extra = rng.randrange(3) if rng.random() < 0.4 else 0
            for _ in range(extra):
                if rng.random() < 0.5:
                    op, _, _ = gen.gen_de_algo(rng, pool, ta)
                    tg = ta
                else:
                    op, tg = gen.gen_op(rng, pool)
                pos = rng.randrange(len(threads[t]) + 1)
                threads[t].insert(pos, op), targets[t].insert(pos, tg)
    else:
        weights = gen.swarm_weights(rng)
        for t in range(n):
            for _ in range(1 + rng.randrange(3)):
                op, tg = gen.gen_op(rng, pool, weights)
                threads[t].append(op), targets[t].append(tg)
    r = rng.random()
    if r < 0.5:
        policy = ["rand", rng.choice([0.02, 0.1, 0.3, 0.7])]
    else:
        policy = ["pct", rng.choice([1, 2, 3])]
    return {
        "property": PROP, "engine": core.ENGINE_VERSION, "verif_seed": vseed, "run_index": index,
        "run_seed": str(seed), "pythonhashseed": core.HASHSEED,
        "config": {"threads": n, "granularity": granularity, "policy": policy, "warm": warm,
                   "mode": mode},
        "threads": threads, "targets": targets, "policy_seed": rng.getrandbits(48), "setup": setup,
    }


def sweep_pairs(pool: dict, tier: str = "quick", vseed: int = 0) -> list[dict]:
    """Fixed list of sensitive op pairs for the quick tier: every DE method at algorithm level,
    methods used by a bank also at IBAN level, plus generic pairs sharing no algorithm object."""
    pairs: list[dict] = []

    def first(rows, pred):
        for r in rows:
            if pred(r[1]):
                return r[0]
        return None

    for key in sorted(pool["de_methods"]):
        rows = pool["de_methods"][key]["accounts"]
        acc = first(rows, lambda c: c == "accept") or first(rows, lambda c: c.startswith("accept"))
        rej = first(rows, lambda c: c == "reject") or first(rows, lambda c: c.startswith("reject"))
        rem0 = first(rows, lambda c: c.endswith("rem0"))
        rem1 = first(rows, lambda c: c.endswith("rem1"))
        rai = first(rows, lambda c: c.startswith("raise"))
        combos = []
        if acc and rej:
            combos.append((acc, rej))
        if rem0 and rem1:
            combos.append((rem1, rem0))
        if rai and acc:
            combos.append((rai, acc))
        if rem1 and acc and (rem1, acc) not in combos:
            combos.append((rem1, acc))
        for a, b in combos:
            pairs.append({"ops": [["algo_validate", key, [a], ""], ["algo_validate", key, [b], ""]],
                          "targets": [key, key], "label": f"{key} validate {a} x {b}"})
        if acc and rej:
            pairs.append({"ops": [["algo_compute", key, [acc]], ["algo_validate", key, [rej], ""]],
                          "targets": [key, key], "label": f"{key} compute x validate"})
    for key in sorted(pool["de_ibans"]):
        rows = pool["de_ibans"][key]
        acc = first(rows, lambda c: c.startswith("accept"))
        rej = first(rows, lambda c: c.startswith("reject"))
        if acc and rej:
            pairs.append({"ops": [["iban", acc, {"validate_bban": True}],
                                  ["iban", rej, {"validate_bban": True}]],
                          "targets": [key, key], "label": f"{key} IBAN accept x reject"})
    if tier == "thorough":
        for key in sorted(pool["de_methods"]):
            rows = pool["de_methods"][key]["accounts"]
            acc = first(rows, lambda c: c.startswith("accept"))
            rej = first(rows, lambda c: c.startswith("reject"))
            if acc and rej:
                pairs.append({"ops": [["algo_validate", key, [acc], ""], ["algo_validate", key, [rej], ""]],
                              "targets": [key, key], "label": f"{key} two pre-emptions grid", "shape": "grid", "grid": 14})
    # bytecode-granularity sweeps of "the same call again" against another account of the same method
    # (memo / last-result patterns tear inside one source line); a rotating subset in the quick tier
    dkeys = sorted(pool["de_methods"])
    chosen = dkeys if tier == "thorough" else [dkeys[(vseed * 7 + i * 5) % len(dkeys)] for i in range(6)]
    for key in dict.fromkeys(chosen):
        rows = pool["de_methods"][key]["accounts"]
        acc = first(rows, lambda c: c.startswith("accept"))
        rej = first(rows, lambda c: c.startswith("reject"))
        if acc and rej:
            pairs.append({"ops": [["algo_validate", key, [acc], ""], ["algo_validate", key, [rej], ""]],
                          "targets": [key, key], "label": f"{key} validate twice x other (opcode)",
                          "granularity": "opcode", "shape": "repeat"})
    # fill-level sweeps: k distinct lookups before the threads start, k around powers of two - a bounded cache
    # a change may have added is then exactly full, so that the eviction / clear path runs inside the race
    many = pool["bank_keys"].get("many", [])
    if len(many) > 40:
        exps = range(5, 10) if tier == "thorough" else range(5, 9)
        for m in exps:
            for j in (0, 1):
                k = (1 << m) - j
                if k + 2 >= len(many):
                    continue
                pairs.append({"ops": [["bic_from_bank_code", *many[0]], ["bic_candidates", *many[k + 1]]],
                              "targets": ["bank_index", "bank_index"], "label": f"cached key x new key after {k} distinct lookups",
                              "cold": "all", "warm_lookups": k})
    # IBAN-level pairs across different banks / methods (shared lookup paths, no shared method object)
    keys = sorted(k for k in pool["de_ibans"] if pool["de_ibans"][k])
    # ... a rotating few of them (all in thorough) also at bytecode granularity: windows inside one source line of
    # the lookup / parsing code (a two-store memo, a tuple assignment to two globals)
    opcode_pairs = range(len(keys)) if tier == "thorough" else {(vseed * 3 + j * 11) % max(1, len(keys)) for j in range(3)}
    for i in sorted(opcode_pairs):
        if len(keys) < 2:
            break
        key, other = keys[i], keys[(i + 1) % len(keys)]
        acc = first(pool["de_ibans"][key], lambda c: c.startswith("accept"))
        rej = first(pool["de_ibans"][other], lambda c: c.startswith("reject"))
        if acc and rej:
            pairs.append({"ops": [["iban", acc, {"validate_bban": True}], ["iban", rej, {"validate_bban": True}]],
                          "targets": ["bank_index", "bank_index"], "label": f"IBAN {key} x {other} (opcode)",
                          "granularity": "opcode"})
    for i, key in enumerate(keys):
        other = keys[(i + 1) % len(keys)]
        acc = first(pool["de_ibans"][key], lambda c: c.startswith("accept"))
        rej = first(pool["de_ibans"][other], lambda c: c.startswith("reject"))
        if acc and rej and other != key:
            if i % 2 == 0:
                pairs.append({"ops": [["iban", acc, {"validate_bban": True}], ["iban", rej, {"validate_bban": True}]],
                              "targets": ["bank_index", "bank_index"], "label": f"IBAN {key} accept x {other} reject"})
            else:
                pairs.append({"ops": [["iban_props", acc], ["iban_checksum", rej]],
                              "targets": ["bank_index", "bank_index"], "label": f"props {key} x checksum {other}"})
    # generic pairs: no algorithm object in common
    vi = pool["valid_ibans"]
    comp = pool["components"]
    bk = pool["bank_keys"]

    def g(a, b, label):
        pairs.append({"ops": [a, b], "targets": ["generic", "generic"], "label": label, "cold": True})

    ccs = [c for c in pool["countries"] if vi[c]]
    for i in range(0, min(len(ccs) - 1, 40), 5):
        g(["iban", vi[ccs[i]][0], {}], ["iban", vi[ccs[i + 1]][0], {}], f"parse {ccs[i]} x {ccs[i+1]}")
    for cc in ("DE", "FR", "GB", "NL", "IT"):  # first use of one country's spec by two threads at once
        if len(vi.get(cc, [])) >= 2:
            g(["iban", vi[cc][0], {}], ["iban", vi[cc][1], {}], f"parse {cc} x {cc} (cold)")
    # the same BBAN text under two countries at once (objects with equal text must not influence each other)
    by_len: dict = {}
    for cc in pool["countries"]:
        for row in comp.get(cc, [])[:1]:
            if row[3].isdigit():
                by_len.setdefault(len(row[3]), []).append(cc)
    done = 0
    for key in sorted(pool["de_ibans"]):
        rej = first(pool["de_ibans"][key], lambda c: c.startswith("reject"))
        others = [c for c in by_len.get(18, []) if c != "DE"]
        if rej and others and done < 3:
            text = rej[4:]
            g(["from_bban", "DE", text, {"validate_bban": True}], ["bban_props", others[done % len(others)], text],
              f"same BBAN text under DE and {others[done % len(others)]}")
            done += 1
    g(["iban", vi["DE"][0], {}], ["iban", pool["odd_ibans"][0][1], {}], "parse valid x odd")
    g(["iban_props", vi["DE"][0]], ["iban_props", vi["FR"][0]], "props DE x FR")
    g(["iban_props", vi["GB"][0]], ["bic_props", pool["bics"]["registry"][0]], "props x bic_props")
    if bk["ordersens"]:
        k0, k1 = bk["ordersens"][0], bk["ordersens"][-1]
        g(["bic_candidates", *k0], ["bic_candidates", *k1], "candidates x candidates")
        g(["bic_candidates", *k0], ["bic_from_bank_code", *k0], "candidates x from_bank_code same key")
        g(["bic_from_bank_code", *k0], ["bic_from_bank_code", *k0], "from_bank_code same key twice")
    if pool["lookup_ibans"]:
        g(["iban_props", pool["lookup_ibans"][0]], ["bic_candidates", *bk["multi"][0]], "props x candidates")
    for cc in ("DE", "FR", "ES", "NO", "PL"):
        if comp.get(cc) and len(comp[cc]) > 1:
            a, b = comp[cc][0], comp[cc][1]
            g(["generate", cc, a[0], a[2], a[1]], ["generate", cc, b[0], b[2], b[1]], f"generate {cc} x {cc}")
    g(["generate", "DE", comp["DE"][0][0], comp["DE"][0][2], ""],
      ["generate", "IT", comp["IT"][0][0], comp["IT"][0][2], comp["IT"][0][1]], "generate DE x IT")
    g(["iban_random", "DE", 1, True, {}], ["iban_random", "DE", 2, True, {}], "random DE x DE")
    g(["iban_random", "", 3, True, {}], ["iban_random", "", 4, False, {}], "random any x any")
    g(["iban_random", "NO", 5, True, {}], ["bban_random", "PL", 6, True, {}], "random NO x PL")
    g(["bic", "GENODEM1GLS", {}], ["bic", "1234DEWW", {"enforce_swift_compliance": True}], "bic x bic strict")
    g(["bic_props", "GENODEM1GLS"], ["bic_props", "MARKDEF1100"], "bic_props x bic_props (cold pycountry)")
    g(["bic", "DEUTDEFF", {}], ["iban_props", vi["AT"][0]], "bic x props (cold pycountry)")
    g(["from_bban", "DE", comp["DE"][0][3], {"validate_bban": True}],
      ["from_bban", "DE", comp["DE"][1][3], {"validate_bban": False}], "from_bban flags")
    for key in ("BE:default", "FR:default", "IT:default", "NO:default", "ES:default"):
        cases = pool["algos"].get(key) or []
        if len(cases) >= 2:
            pairs.append({"ops": [["algo_validate", key, cases[0][0], cases[0][1]],
                                  ["algo_validate", key, cases[1][0], cases[1][1]]],
                          "targets": [key, key], "label": f"{key} validate x validate"})
    return pairs


def sweep_runs(pair_index: int, pair: dict, vseed: int, max_points: int) -> list[dict]:
    """One run per single pre-emption point of either op, the other running whole inside the gap
    (every point when the op has at most `max_points` of them, else an even sample)."""
    a, b = pair["ops"]
    if pair.get("shape") == "grid":
        # two pre-emptions: A runs k1 points, B runs k2 points, A finishes, B finishes (sampled k1 x k2 grid)
        recs = []
        sa, sb = runner.steps(a, "line", warm=True), runner.steps(b, "line", warm=True)
        n = pair.get("grid", 12)
        for k1 in sorted({1 + (i * sa) // n for i in range(n)}):
            for k2 in sorted({1 + (i * sb) // n for i in range(n)}):
                script = [[0, k1, "p"], [1, k2, "p"], [0, 0, "f"], [1, 0, "f"]]
                recs.append({
                    "property": PROP, "engine": core.ENGINE_VERSION, "verif_seed": vseed,
                    "run_index": f"grid-{pair_index}-{k1}-{k2}", "run_seed": "n/a (sweep)", "pythonhashseed": core.HASHSEED,
                    "config": {"threads": 2, "granularity": "line", "policy": ["script", script], "warm": False,
                               "mode": "sweep", "label": pair["label"], "cold": False, "warm_lookups": 0},
                    "threads": [[a], [b]], "targets": [[pair["targets"][0]], [pair["targets"][1]]], "policy_seed": 0,
                })
        return recs
    recs = []
    gran = pair.get("granularity", "line")
    repeat = pair.get("shape") == "repeat"  # thread 0 makes the same call twice; the second one is swept
    for first_tid, (x, y) in enumerate(((a, b), (b, a))):
        if repeat and first_tid == 1:
            break
        # sweep batches run warm after their first run, so the warm count is the one that places the pre-emptions
        if repeat:
            # thread 0 makes the call twice: sweep the *second* execution, whose length may differ from the first
            # (a memo hit) - measured on the sequence itself
            # (cold count: in a batch the previous run's post-episode probe leaves the other op as the last one
            # executed, so the first execution here takes the same path as in a fresh process; only a lazily
            # initialising tree, whose cold count is dominated by the initialisation, is measured warm)
            marks = runner.steps_seq([x, x], gran, warm=False)
            if marks[0] >= runner.STEP_COUNT_CAP:
                marks = runner.steps_seq([x, x], gran, warm=True)
            lo, steps = marks[0] + 1, marks[1]
        else:
            one = runner.steps(x, gran, warm=not pair.get("cold") == "all")
            lo, steps = 1, one
        stride = max(1, -(-(steps - lo + 1) // max_points))
        offset = (pair_index + first_tid) % stride
        for k in range(lo + offset, steps + 1, stride):
            other = 1 - first_tid
            script = [[first_tid, k, "p"], [other, 0, "f"], [first_tid, 0, "f"]]
            threads = [[a, a], [b]] if repeat else [[a], [b]]
            tg = pair["targets"]
            recs.append({
                "property": PROP, "engine": core.ENGINE_VERSION, "verif_seed": vseed,
                "run_index": f"sweep-{pair_index}-{first_tid}-{k}", "run_seed": "n/a (sweep)",
                "pythonhashseed": core.HASHSEED,
                "config": {"threads": 2, "granularity": gran, "policy": ["script", script],
                           "warm": False, "mode": "sweep", "label": pair["label"],
                           "cold": pair.get("cold") == "all" or (bool(pair.get("cold")) and k <= (8 if COLD_EXPENSIVE else 40)),
                           "warm_lookups": pair.get("warm_lookups", 0)},
                "threads": threads, "targets": [[tg[0], tg[0]], [tg[1]]] if repeat else [[tg[0]], [tg[1]]],
                "policy_seed": 0,
            })
    return recs


# ---------------------------------------------------------------------------------------------
# one simulated run (inside a forked child)
# ---------------------------------------------------------------------------------------------


def run_child(rec: dict, keep_events: bool = False) -> dict:
    """The whole simulated execution of one record: optional warm-up, optional prelude of earlier
    simulated runs in the same process (sweep batches), then the run that is judged."""
    if rec["config"].get("warm"):
        runner.warm_up()
    if rec["config"].get("warm") == "heavy":
        runner.heavy_warm_up()
    for cc, code in runner.POOL["bank_keys"].get("many", [])[: rec["config"].get("warm_lookups", 0)]:
        ops.execute(["bic_candidates", cc, code])
    for pre in rec.get("prelude", ()):
        run_one(pre, False)
    return run_one(rec, keep_events)


def run_batch_child(recs: list) -> list:
    """Sweep batches: consecutive simulated runs in one process (deterministic, replayable as a
    prelude); cheaper than one fork per single-pre-emption run."""
    return [run_one(rec, False) for rec in recs]


def run_one(rec: dict, keep_events: bool = False) -> dict:
    cfg = rec["config"]
    threads = rec["threads"]
    targets = rec["targets"]
    n = len(threads)
    rng = random.Random(rec["policy_seed"])
    policy = sched.make_policy(cfg["policy"], rng, n, rec.get("est_steps", 500))
    s = sched.Scheduler(n, policy, runner.PKG_DIR, cfg["granularity"], MAX_STEPS, keep_events)
    outcomes: list[list] = [[] for _ in range(n)]
    for t in range(n):
        s.next_target[t] = targets[t][0] if targets[t] else None
    objs: list = []
    for op in rec.get("setup", ()):
        _, obj = ops.execute(op, objs)  # main thread, before the simulated threads exist
        objs.append(obj)

    def body(tid: int) -> None:
        my_ops, my_targets = threads[tid], targets[tid]
        for j, op in enumerate(my_ops):
            s.cur_target[tid] = my_targets[j]
            s.in_op[tid] = True
            out, _ = ops.execute(op, objs)
            s.in_op[tid] = False
            s.next_target[tid] = my_targets[j + 1] if j + 1 < len(my_ops) else None
            outcomes[tid].append(out)
            s.log.add(tid, "outcome", core.jdump(out))

    ok = s.run(body, watchdog=30.0)
    post: list = []
    if ok and s.deadlock is None and not s.errors:
        # after the concurrent episode every call, run alone again, must still give its solo answer
        seen: set = set()
        for t in range(n):
            for op in threads[t]:
                key = core.jdump(op)
                if key not in seen:
                    seen.add(key)
                    out, _ = ops.execute(op, objs)
                    post.append([op, out])
                    s.log.add("post", key, core.jdump(out))
    res = {
        "finished": bool(ok), "errors": s.errors, "outcomes": outcomes, "schedule": s.schedule,
        "steps": s.steps, "switches": s.switches, "conflict_switches": s.conflict_switches,
        "switch_sites": s.switch_sites, "deadlock": s.deadlock, "capped": s.capped,
        "lock_acquires": s.lock_acquires, "lock_blocks": s.lock_blocks,
        "event_digest": s.log.digest(), "interleaving": s.switch_log.digest()[:16], "post": post,
    }
    if keep_events:
        res["events"] = s.log.events
    return res


def judge(rec: dict, res: dict) -> dict | None:
    """Compare a finished run with the solo outcomes; return a violation dict or None."""
    if res["errors"]:
        raise core.HarnessError(f"exception in simulated thread harness: {res['errors']}")
    if not res["finished"]:
        raise core.HarnessError(f"watchdog: simulated run hung (record {core.jdump(rec)[:800]})")
    if res["deadlock"] is not None:
        waiting = res["deadlock"]["waiting"]
        t = waiting[0] if waiting else 0
        j = len(res["outcomes"][t])
        op = rec["threads"][t][j] if j < len(rec["threads"][t]) else rec["threads"][t][-1]
        tg = rec["targets"][t][min(j, len(rec["targets"][t]) - 1)]
        return {"kind": "deadlock", "thread": t, "op_index": j,
                "signature": {"kind": "deadlock", "op_kind": op[0], "target": _family(tg)},
                "detail": f"threads {waiting} blocked forever at {res['deadlock']['site']}"}
    for t, my_ops in enumerate(rec["threads"]):
        for j, op in enumerate(my_ops):
            want = solo_outcome(rec, op)
            got = res["outcomes"][t][j] if j < len(res["outcomes"][t]) else ["missing"]
            if not ops.same_outcome(op, got, want):
                return {"kind": "outcome-differs-from-solo", "thread": t, "op_index": j,
                        "signature": {"kind": "outcome-differs-from-solo", "op_kind": op[0],
                                      "target": _family(rec["targets"][t][j])},
                        "op": op, "expected": want, "observed": got,
                        "detail": f"thread {t} op {core.jdump(op)[:200]} alone -> "
                                  f"{core.jdump(want)[:200]} but concurrently -> {core.jdump(got)[:200]}"}
    for op, got in res.get("post", ()):
        want = solo_outcome(rec, op)
        if not ops.same_outcome(op, got, want):
            tg = next((rec["targets"][t][j] for t, th in enumerate(rec["threads"]) for j, o in enumerate(th) if o == op), None)
            return {"kind": "outcome-differs-after-concurrent-episode", "thread": 0, "op_index": 0,
                    "signature": {"kind": "outcome-differs-after-concurrent-episode", "op_kind": op[0], "target": _family(tg)},
                    "op": op, "expected": want, "observed": got,
                    "detail": f"after the threads finished, {core.jdump(op)[:200]} run alone -> {core.jdump(got)[:200]} "
                              f"instead of {core.jdump(want)[:200]} (state left behind by the interleaving)"}
    return None


def solo_outcome(rec: dict, op):
    """Outcome of the call alone in a pristine process (with the setup objects it uses built first)."""
    if rec.get("setup") and ops.refs_of(op):
        hist = list(rec["setup"]) + [op]
        return runner.solo_history(ops.closure_chain(hist, len(hist) - 1))["outcome"]
    return runner.solo(op)["outcome"]


def _family(target) -> str:
    if not target:
        return "none"
    return str(target).split(":", 1)[0]


def est_steps(rec: dict) -> int:
    if rec["config"]["policy"][0] != "pct":
        return 0
    g = rec["config"]["granularity"]
    return sum(300 if ops.refs_of(op) else runner.steps(op, g, warm=bool(rec["config"].get("warm")))
               for th in rec["threads"] for op in th)


def execute_record(rec: dict, keep_events: bool = False):
    rec = dict(rec)
    rec["est_steps"] = est_steps(rec)
    res = isolate.fork_call(run_child, (rec, keep_events), timeout=90)
    return rec, res, judge(rec, res)


# ---------------------------------------------------------------------------------------------
# worker task
# ---------------------------------------------------------------------------------------------


def worker_task(task: dict) -> dict:
    isolate.worker_guard()
    vseed = task["vseed"]
    pool = runner.POOL
    if task["kind"] == "random":
        recs = [gen_run(i, vseed, pool) for i in task["indices"]]
    else:
        recs = sweep_runs(task["pair_index"], task["pair"], vseed, task["max_points"])
    st = {"runs": 0, "steps": 0, "switches": 0, "conflict_runs": 0, "deadlocks": 0, "capped": 0,
          "lock_blocks": 0, "lock_acquires": 0, "opcode_runs": 0, "warm_runs": 0, "three_thread_runs": 0,
          "interleavings": set(), "nontrivial": set(), "sites": {}, "violations": [], "samples": [],
          "digests": [], "ops": 0, "policies": {}, "exc_outcomes": 0, "cold_country_race": 0}
    results = []
    if runner.past(task.get("deadline")):  # consulted only *before* work starts: nothing that ran is ever discarded
        recs = []
        st["skipped"] = 1
    if task["kind"] == "sweep":
        cold = [r for r in recs if r["config"].get("cold")]
        recs = [r for r in recs if not r["config"].get("cold")]
        for rec in cold:  # each in its own pristine fork: first-use initialisation is raced too
            results.append(execute_record(rec))
        batch_res = isolate.fork_call(run_batch_child, (recs,), timeout=600) if recs else []
        for i, (rec, res) in enumerate(zip(recs, batch_res)):
            viol = judge(rec, res)
            if viol is not None:
                # prefer the run on its own in a pristine fork; keep the batch prefix as prelude otherwise
                r1, res1, viol1 = execute_record(rec)
                if viol1 is not None and viol1["signature"] == viol["signature"]:
                    rec, res, viol = r1, res1, viol1
                else:
                    rec = dict(rec)
                    rec["prelude"] = [dict(p) for p in recs[:i]]
            results.append((rec, res, viol))
            if viol is not None and "prelude" in rec:
                break  # later runs of this batch ran on state the violating run may have disturbed
    else:
        def lazily():
            for rec in recs:
                if runner.past(task.get("deadline")):
                    st["skipped"] = st.get("skipped", 0) + 1
                    return
                yield execute_record(rec)

        results = lazily()
    for rec, res, viol in results:
        st["runs"] += 1
        st["steps"] += res["steps"]
        st["switches"] += res["switches"]
        st["ops"] += sum(len(t) for t in rec["threads"])
        st["capped"] += bool(res["capped"])
        st["deadlocks"] += res["deadlock"] is not None
        st["lock_blocks"] += res["lock_blocks"]
        st["lock_acquires"] += res["lock_acquires"]
        st["opcode_runs"] += rec["config"]["granularity"] == "opcode"
        st["warm_runs"] += bool(rec["config"]["warm"])
        st["three_thread_runs"] += len(rec["threads"]) == 3
        st["exc_outcomes"] += sum(1 for t in res["outcomes"] for o in t if o and o[0] == "exc")
        pname = rec["config"]["policy"][0]
        st["policies"][pname] = st["policies"].get(pname, 0) + 1
        inter = int(res["interleaving"], 16)
        st["interleavings"].add(inter)
        if res["conflict_switches"]:
            st["conflict_runs"] += 1
            st["nontrivial"].add(inter)
        if not rec["config"]["warm"] and res["switches"] > 1:
            users = sum(1 for th in rec["threads"] if any(o[0] in ("bic", "bic_props", "bic_validate", "iban_props", "props") for o in th))
            st["cold_country_race"] += users >= 2
        for site, c in res["switch_sites"].items():
            st["sites"][site] = st["sites"].get(site, 0) + c
        if task.get("digests"):
            st["digests"].append([rec["run_index"], res["event_digest"]])
        if viol is not None:
            if len(st["violations"]) < 3:
                v = dict(rec)
                v["schedule"] = res["schedule"]
                v["violation"] = viol
                v["event_log_sha256"] = res["event_digest"]
                st["violations"].append(v)
            st.setdefault("violation_count", 0)
            st["violation_count"] += 1
        elif len(st["samples"]) < 1 and res["switches"] > 2:
            st["samples"].append({"run_index": rec["run_index"], "config": rec["config"],
                                  "threads": rec["threads"], "schedule": res["schedule"][:12],
                                  "outcomes": [[o[0] for o in t] for t in res["outcomes"]]})
    st["interleavings"] = sorted(st["interleavings"])
    st["nontrivial"] = sorted(st["nontrivial"])
    return st


# ---------------------------------------------------------------------------------------------
# confirm / minimise / replay
# ---------------------------------------------------------------------------------------------


def as_script(rec: dict) -> dict:
    r = json.loads(json.dumps(rec))
    r["config"]["policy"] = ["script", r["schedule"]]
    return r


def confirm(rec: dict) -> dict | None:
    r = as_script(rec)
    r2, res, viol = execute_record(r)
    if viol is None:
        return None
    r2["schedule"] = res["schedule"]
    r2["violation"] = viol
    r2["event_log_sha256"] = res["event_digest"]
    return r2


def _try(rec: dict, want_key: str) -> dict | None:
    try:
        got = confirm(rec)
    except core.HarnessError:
        return None
    if got is not None and report.class_key(got) == want_key:
        return got
    return None


def normalise(segs: list) -> list:
    out: list = []
    for tid, n, r in segs:
        if out and out[-1][0] == tid:
            out[-1][1] += n
            out[-1][2] = r
        else:
            out.append([tid, n, r])
    return out


def drop_segments(schedule: list, idxs) -> list:
    """Remove the given turns; the yield points they covered are added to the same thread's next
    turn so that the relative position of every remaining pre-emption is preserved."""
    segs = [list(x) for x in schedule]
    idxs = set(idxs)
    for i in sorted(idxs, reverse=True):
        tid, n, _ = segs[i]
        for j in range(i + 1, len(segs)):
            if j not in idxs and segs[j][0] == tid:
                segs[j][1] += n
                break
    return normalise([x for i, x in enumerate(segs) if i not in idxs])


def minimise(rec: dict) -> dict:
    want = report.class_key(rec)
    orig = {"ops": sum(len(t) for t in rec["threads"]), "threads": len(rec["threads"]),
            "switches": max(0, len(rec["schedule"]) - 1)}
    best = rec
    budget = 800

    def attempt(cand, shorter_schedule: bool = False) -> bool:
        nonlocal best, budget
        if budget <= 0:
            return False
        budget -= 1
        got = _try(cand, want)
        if got is not None and not (shorter_schedule and len(got["schedule"]) >= len(best["schedule"])):
            best = got
            return True
        return False

    def clone():
        return json.loads(json.dumps(best))

    def ddmin_schedule() -> None:
        chunk = max(1, len(best["schedule"]) // 2)
        while chunk >= 1 and budget > 0:
            i = 0
            progressed = False
            while i < len(best["schedule"]) and budget > 0:
                idxs = range(i, min(len(best["schedule"]), i + chunk))
                c = clone()
                c["schedule"] = drop_segments(best["schedule"], idxs)
                if len(c["schedule"]) < len(best["schedule"]) and attempt(c, True):
                    progressed = True  # best shrank; retry the same position
                else:
                    i += chunk
            if chunk == 1 and not progressed:
                break
            chunk = chunk // 2 if chunk > 1 else (1 if progressed else 0)

    def shortest_prefix() -> None:
        """Replay only the first m turns, then let the remaining threads run one after the other
        (ScriptPolicy fallback); binary-search the smallest m that still shows the violation."""
        full = [list(x) for x in best["schedule"]]
        lo, hi = 0, len(full)
        while lo < hi and budget > 0:
            mid = (lo + hi) // 2
            c = clone()
            c["schedule"] = full[:mid]
            before = best
            if attempt(c, True):
                hi = mid
            else:
                lo = mid + 1
                best_ = before  # noqa: F841 - best unchanged on failure

    # 0a. no (or a shorter) prelude of earlier runs in the same process
    if best.get("prelude"):
        c = clone()
        c["prelude"] = []
        if not attempt(c):
            size = len(best["prelude"]) // 2
            while size >= 1 and best.get("prelude"):
                c = clone()
                c["prelude"] = best["prelude"][size:]
                if not attempt(c):
                    size //= 2
    # 0b. cold instead of warm
    if best["config"].get("warm"):
        c = clone()
        c["config"]["warm"] = False
        attempt(c)
    # 1. fewer context switches first (cheapens every later attempt)
    shortest_prefix()
    # 2. drop whole threads (their turns are dropped, remaining tids renumbered)
    changed = True
    while changed and len(best["threads"]) > 1:
        changed = False
        for t in range(len(best["threads"])):
            if t == best["violation"]["thread"]:
                continue
            c = clone()
            del c["threads"][t], c["targets"][t]
            c["config"]["threads"] = len(c["threads"])
            kept = drop_segments(best["schedule"], [i for i, x in enumerate(best["schedule"]) if x[0] == t])
            c["schedule"] = [[x[0] - (x[0] > t), x[1], x[2]] for x in kept]
            if attempt(c):
                changed = True
                break
    # 3. drop single ops
    changed = True
    while changed:
        changed = False
        for t in range(len(best["threads"])):
            for j in range(len(best["threads"][t])):
                if len(best["threads"][t]) == 1:
                    continue
                c = clone()
                del c["threads"][t][j], c["targets"][t][j]
                if attempt(c):
                    changed = True
                    break
            if changed:
                break
    # 4. fewer context switches
    ddmin_schedule()
    best["minimised_from"] = orig
    best["minimised_to"] = {"ops": sum(len(t) for t in best["threads"]), "threads": len(best["threads"]),
                            "switches": max(0, len(best["schedule"]) - 1)}
    return best


def replay(path: str) -> int:
    with open(path, encoding="utf-8") as fp:
        rec = json.load(fp)
    runner.bootstrap()
    runner.build_pool_isolated()
    runner.WARM_BATTERY[:] = runner.default_warm_battery(runner.POOL)
    rec.pop("violation_observed", None)
    want = report.class_key(rec)
    r = as_script(rec)
    r2, res, viol = execute_record(r, keep_events=False)
    print(f"replay {path}: tree={core.src_dir()} steps={res['steps']} switches={res['switches']} "
          f"event_log_sha256={res['event_digest']}")
    if viol is not None and core.jdump(viol["signature"]) == want:
        same = res["event_digest"] == rec.get("event_log_sha256")
        print(f"REPRODUCED property={PROP} class={want} exact_event_log={'yes' if same else 'no'}")
        print("  " + viol["detail"])
        print(f"VIOLATION property={PROP} replay={path}")
        return core.EXIT_VIOLATION
    print(f"NOT REPRODUCED property={PROP} (violation now: {viol and viol['signature']})")
    return core.EXIT_OK


# ---------------------------------------------------------------------------------------------
# main
# ---------------------------------------------------------------------------------------------


def main() -> int:
    ap = argparse.ArgumentParser()
    ap.add_argument("--tier", default=os.environ.get("VERIF_TIER", "quick"), choices=["quick", "thorough"])
    ap.add_argument("--replay")
    ap.add_argument("--runs", type=int)
    ap.add_argument("--digests", action="store_true", help="print one event-log digest per run (self-test)")
    ap.add_argument("--no-sweep", action="store_true")
    ap.add_argument("--no-evidence", action="store_true")
    args = ap.parse_args()
    if args.replay:
        return replay(args.replay)

    timer = runner.Timer()
    runner.bootstrap()
    vseed = core.verif_seed()
    print(f"VERIF_SEED={vseed} property={PROP} tier={args.tier} tree={core.src_dir()} workers={core.workers()}")
    pool = runner.build_pool_isolated()
    runner.WARM_BATTERY[:] = runner.default_warm_battery(pool)
    global COLD_EXPENSIVE
    probe_key = (pool["bank_keys"]["single"] or pool["bank_keys"]["missing"])[0]
    cold_cost = runner.steps(["bic_candidates", *probe_key], "line")
    COLD_EXPENSIVE = cold_cost > MAX_STEPS  # a deterministic function of the tree, not of the clock
    if COLD_EXPENSIVE:
        print(f"note: the first lookup of a process passes {cold_cost} pre-emption points (> step cap {MAX_STEPS}): "
              f"lazily initialising tree, 10 % instead of 70 % of the random runs start cold")
    nruns = args.runs if args.runs is not None else int(os.environ.get("VERIF_RUNS") or (4000 if args.tier == "quick" else 150_000))
    tasks = []
    pairs = [] if args.no_sweep else sweep_pairs(pool, args.tier, vseed)
    for i, pair in enumerate(pairs):
        tasks.append({"kind": "sweep", "pair_index": i, "pair": pair, "vseed": vseed, "digests": args.digests,
                      "max_points": (60 if pair.get("granularity") != "opcode" else 400) if args.tier == "quick" else 100000})
    for ch in runner.chunks(list(range(nruns)), 100 if nruns > 20000 else 25):
        tasks.append({"kind": "random", "indices": ch, "vseed": vseed, "digests": args.digests})
    deadline = runner.wall_cap(args.tier)
    for t in tasks:
        t["deadline"] = deadline
    wp = isolate.Pool(core.workers())
    skipped = 0
    agg = {"runs": 0, "sweep_runs": 0, "steps": 0, "switches": 0, "conflict_runs": 0, "deadlocks": 0,
           "capped": 0, "lock_blocks": 0, "lock_acquires": 0, "opcode_runs": 0, "warm_runs": 0,
           "three_thread_runs": 0, "ops": 0, "exc_outcomes": 0, "cold_country_race": 0}
    inter, nontriv = set(), set()
    sites: dict[str, int] = {}
    policies: dict[str, int] = {}
    violations: list[dict] = []
    vcount = 0
    samples: list = []
    digests: list = []
    limit = max(7000 if args.tier == "thorough" else 1500, (deadline - __import__("time").time()) + 900)
    try:
        for task, st in wp.map_unordered(worker_task, tasks, timeout=limit):
            for k in agg:
                if k in st:
                    agg[k] += st[k]
            skipped += st.get("skipped", 0)
            if task["kind"] == "sweep":
                agg["sweep_runs"] += st["runs"]
            inter.update(st["interleavings"])
            nontriv.update(st["nontrivial"])
            for s_, c in st["sites"].items():
                sites[s_] = sites.get(s_, 0) + c
            for p, c in st["policies"].items():
                policies[p] = policies.get(p, 0) + c
            violations.extend(st["violations"])
            vcount += st.get("violation_count", 0)
            if len(samples) < 4:
                samples.extend(st["samples"])
            digests.extend(st["digests"])
    finally:
        wp.close()
    if args.digests:
        for idx, d in sorted(digests, key=lambda x: str(x[0])):
            print(f"DIGEST {idx} {d}")
    violations.sort(key=lambda r: str(r["run_index"]))
    explore_wall = timer.elapsed()
    print(f"exploration finished after {explore_wall:.1f}s; violations_seen={vcount}")
    sys.stdout.flush()
    unlisted = report.process(PROP, violations, confirm, minimise, SCRIPT)
    wall = timer.elapsed()

    def site_count(pred):
        return sum(c for s_, c in sites.items() if pred(s_))

    probes = {
        "switch_inside_germany_py": site_count(lambda s_: s_.startswith("checksum/germany.py")),
        "switch_inside_checksum_pkg": site_count(lambda s_: s_.startswith("checksum/")),
        "switch_inside_bban_py": site_count(lambda s_: s_.startswith("bban.py")),
        "switch_inside_iban_py": site_count(lambda s_: s_.startswith("iban.py")),
        "switch_inside_bic_py": site_count(lambda s_: s_.startswith("bic.py")),
        "switch_inside_registry_py": site_count(lambda s_: s_.startswith("registry.py")),
        "switch_inside_common_py": site_count(lambda s_: s_.startswith("common.py")),
        "runs_with_conflicting_switch": agg["conflict_runs"],
        "cold_pycountry_users_raced": agg["cold_country_race"],
        "lock_contention_observed": agg["lock_blocks"],
        "deadlocks": agg["deadlocks"],
        "runs_hitting_step_cap": agg["capped"],
        "outcomes_that_were_exceptions": agg["exc_outcomes"],
    }
    for name, hits in probes.items():
        if hits == 0 and name in ("switch_inside_germany_py", "switch_inside_bban_py", "runs_with_conflicting_switch"):
            print(f"warning: probe {name} never fired")
    # reach: which executable lines of the package were used as a pre-emption (switch) point at least once
    all_lines: dict = {}
    for code in sched._package_codes(runner.PKG_DIR):
        rel = code.co_filename[len(runner.PKG_DIR):]
        for _, _, line in code.co_lines():
            if line and line != code.co_firstlineno or (line and code.co_name == "<module>"):
                all_lines.setdefault((rel, line), code.co_name)
    switched = set()
    for site in sites:
        parts = site.rsplit(":", 2)
        if len(parts) == 3 and parts[2].startswith("L"):
            switched.add((parts[0], int(parts[2][1:])))
    func_lines = {k: v for k, v in all_lines.items() if v != "<module>" and not v.startswith("<")}
    never: dict = {}
    for (rel, line), fn in sorted(func_lines.items()):
        if (rel, line) not in switched:
            never.setdefault(f"{rel}:{fn}", 0)
            never[f"{rel}:{fn}"] += 1
    reach = {
        "executable_lines_in_functions": len(func_lines),
        "lines_used_as_preemption_point": len([k for k in func_lines if k in switched]),
        "functions_with_lines_never_used": dict(sorted(never.items(), key=lambda kv: -kv[1])[:25]),
    }
    cov = {
        "evaluations": agg["runs"],
        "reach_lines": reach,
        "distinct_nontrivial": len(nontriv),
        "rule": "one evaluation = one simulated concurrent run (2-3 threads x 1-3 API calls) under a seeded "
                "schedule; distinct = distinct sha256 over the sequence of (from, to, reason, file:line) at which "
                "control changed hands; non-trivial = at least one pre-emption happened while the pre-empted and "
                "the resumed thread were both in (or about to start) calls routed to the same process-wide object",
        "samples": samples[:4] or [{"note": "no sample with >2 switches"}],
        "distinct_interleavings": len(inter),
        "sweep_runs": agg["sweep_runs"], "sweep_pairs": len(pairs), "random_runs": agg["runs"] - agg["sweep_runs"],
        "ops_executed": agg["ops"],
        "steps": {"preemption_points_passed": agg["steps"], "context_switches": agg["switches"]},
        "runs_per_hour": int(agg["runs"] / wall * 3600) if wall > 0 else 0,
        "seeds": {"verif_seed": vseed, "first_run_index": 0, "last_run_index": nruns - 1,
                  "derivation": "sha256(f'{VERIF_SEED}:C14:{i}')[:16]"},
        "simulated_time": "n/a (library has no clock; logical steps only)",
        "faults_fired": {"preemption_line_or_return": agg["switches"], "opcode_granularity_runs": agg["opcode_runs"],
                         "lock_block": agg["lock_blocks"], "deadlock": agg["deadlocks"],
                         "warm_process_state_runs": agg["warm_runs"], "cold_process_state_runs": agg["runs"] - agg["warm_runs"],
                         "failing_calls_by_input": agg["exc_outcomes"]},
        "policies": policies,
        "three_thread_runs": agg["three_thread_runs"],
        "probes": probes,
        "distinct_preemption_sites_used": len(sites),
        "components": {"real": ["schwifty (tree under test)", "pycountry", "rstr", "re", "json", "bundled registries",
                                "threading.local", "real OS threads"],
                       "stub": ["thread scheduling (baton + seeded policy)", "threading.Lock/RLock/Condition created by the package (SimLock)"]},
        "violations_seen": vcount,
        "tasks_cut_short_by_wall_clock_cap": skipped,
        "cold_start_cost_in_preemption_points": cold_cost, "cold_runs_reduced_for_lazy_tree": COLD_EXPENSIVE,
        "tree_sha256": core.tree_digest(),
    }
    if skipped:
        print(f"note: wall-clock safety cap reached; {skipped} task(s) cut short (fewer runs, same verdict rules)")
    if not args.no_evidence:
        evidence.write(PROP, args.tier, vseed, cov, wall, unlisted, [
            "pre-emption only at line/opcode/return events inside the package; C-level sections and dependencies are atomic (true under the GIL)",
            "solo outcome of each call is taken from a pristine fork of a process that imported the package and made no call",
            "sampling, not enumeration: a clean batch is evidence, not proof",
            "the lock-contention and deadlock probes can only fire on a tree that contains locks (this one has none); they are exercised by the self-test rewrites p14_lock_repair and m14_lock_order_deadlock",
        ])
    print(f"C14 {args.tier}: runs={agg['runs']} (sweep {agg['sweep_runs']}) interleavings={len(inter)} "
          f"nontrivial={len(nontriv)} steps={agg['steps']} switches={agg['switches']} violations_seen={vcount} "
          f"unlisted_classes={unlisted} wall={wall:.1f}s")
    if unlisted:
        return core.EXIT_VIOLATION
    if agg["steps"] == 0 or agg["runs"] == 0:
        raise core.HarnessError("no pre-emption point was passed: the package code is not instrumented (wrong SCHWIFTY_SRC?)")
    if skipped:
        raise core.HarnessError(f"incomplete exploration: the wall-clock safety cap cut {skipped} task(s) short; "
                                f"a truncated run is never reported as a pass (raise VERIF_WALL_CAP or lower --runs)")
    return core.EXIT_OK


if __name__ == "__main__":
    core.main_wrapper(main)
