#!/venv/bin/python
"""C13 — random generation is always valid, honours pinned fields, and is reproducible.

The simulator owns every source of nondeterminism the property depends on: the PRNG stream handed
in through the ``random=`` seam (plain seeded Mersenne Twister and an adversarially biased scripted
generator), the global entropy sources (tapped), the process (twice in one process, after a random
call history, fresh interpreters) and the hash seed.  See DESIGN.md §5.
"""

from __future__ import annotations

import argparse
import json
import os
import random
import re
import sys
import tempfile

sys.path.insert(0, os.path.dirname(os.path.dirname(os.path.abspath(__file__))))

from sim import core, evidence, gen, isolate, ops, report, runner, simrandom  # noqa: E402

PROP = "C13"
SCRIPT = os.path.join("checks", "c13.py")
COMPUTED = "national_checksum_digits"
INFO: dict = {}


# ---------------------------------------------------------------------------------------------
# static info about the tree's country table (collected in a throw-away child)
# ---------------------------------------------------------------------------------------------


def collect_info() -> dict:
    from schwifty import registry

    spec = registry.get("iban")
    banks = registry.get("bank")
    countries = sorted(spec)
    info = {"countries": countries, "spec": {}, "bank_countries": sorted({e["country_code"] for e in banks}),
            "all_have_code": []}
    by_cc: dict = {}
    for e in banks:
        by_cc.setdefault(e["country_code"], []).append(bool(e.get("bank_code")))
    info["all_have_code"] = sorted(cc for cc, flags in by_cc.items() if all(flags))
    for cc in countries:
        s = spec[cc]
        pos = {k: v for k, v in s.get("positions", {}).items() if v and list(v) != [0, 0]}
        info["spec"][cc] = {
            "bban_spec": s["bban_spec"], "bban_length": s["bban_length"], "iban_length": s["iban_length"],
            "positions": {str(getattr(k, "value", k)): list(v) for k, v in pos.items()},
            "has_positions": "positions" in s,
            "lookup": [str(getattr(k, "value", k)) for k in s.get("bic_lookup_components", ["bank_code"])],
        }
    return info


_TOKEN = re.compile(r"(\d+)(!)?([nace])")
_CLASS = {"n": "[0-9]", "a": "[A-Z]", "c": "[A-Za-z0-9]", "e": " "}


def structure_regex(bban_spec: str) -> re.Pattern:
    """Independent expansion of the published structure (not the library's converter)."""
    out = []
    pos = 0
    for m in _TOKEN.finditer(bban_spec):
        if m.start() != pos:
            raise core.HarnessError(f"cannot parse bban_spec {bban_spec!r}")
        pos = m.end()
        n = int(m.group(1))
        out.append(_CLASS[m.group(3)] + ("{%d}" % n if m.group(2) else "{1,%d}" % n))
    if pos != len(bban_spec):
        raise core.HarnessError(f"cannot parse bban_spec {bban_spec!r}")
    return re.compile("".join(out))


def mod97_ok(iban: str) -> bool:
    try:
        moved = iban[4:] + iban[:4]
        return int("".join(str(int(ch, 36)) for ch in moved)) % 97 == 1
    except ValueError:
        return False


# ---------------------------------------------------------------------------------------------
# case generation
# ---------------------------------------------------------------------------------------------


def gen_value(rng, token_class: str, n: int) -> str:
    alpha = {"n": "0123456789", "a": "ABCDEFGHIJKLMNOPQRSTUVWXYZ", "c": "0123456789ABCDEFGHIJKLMNOPQRSTUVWXYZ",
             "e": " "}[token_class]
    style = rng.randrange(4)
    if style == 0:
        return alpha[0] * n
    if style == 1:
        return alpha[-1] * n
    return "".join(alpha[rng.randrange(len(alpha))] for _ in range(n))


def conforming_bban(rng, bban_spec: str) -> str:
    out = []
    for m in _TOKEN.finditer(bban_spec):
        out.append(gen_value(rng, m.group(3), int(m.group(1))))
    return "".join(out)


def gen_case(index: int, vseed: int, info: dict) -> dict:
    seed = core.run_seed(vseed, PROP, index)
    rng = random.Random(seed)
    ccs = info["countries"] + [""]
    # four consecutive cases share a country (so that one draw's pins could leak into the next), while every
    # block of 4*127 cases still visits every country; the fresh-interpreter leg evaluates a strided subset, i.e.
    # the same cases under a different call history
    cc = ccs[(index // 4) % len(ccs)]
    use_registry = bool((index // 2) % 2)
    api = "iban" if rng.random() < 0.7 else "bban"
    pinned: dict = {}
    if cc:
        sp = info["spec"][cc]
        comps = sorted(k for k in sp["positions"] if k != COMPUTED)
        if comps:
            style = rng.randrange(8)
            if style == 0:
                chosen = []
            elif style <= 3:
                chosen = [rng.choice(comps)]
            elif style == 4:
                chosen = list(comps)
            else:
                chosen = [c for c in comps if rng.random() < 0.5]
            if chosen:
                if style == 7 and use_registry and cc in info["bank_countries"]:
                    # a real bank's code is the most common thing a caller pins
                    pass
                bban = conforming_bban(rng, sp["bban_spec"])
                if len(bban) == sp["bban_length"]:
                    for c in chosen:
                        a, b = sp["positions"][c]
                        pinned[c] = bban[a:b]
    r = rng.random()
    if r < 0.45:
        prng = ["mt", rng.randrange(1 << 30)]
    elif r < 0.55:
        prng = ["mt", rng.randrange(12)]
    else:
        prng = ["scripted", rng.randrange(1 << 30), rng.choice(simrandom.BIASES)]
    return {"index": index, "api": api, "country": cc, "use_registry": use_registry, "pinned": pinned, "prng": prng}


# ---------------------------------------------------------------------------------------------
# one draw + oracle (inside a forked child or a fresh interpreter)
# ---------------------------------------------------------------------------------------------


def draw(case: dict, taps: bool = True, force: int = 0) -> dict:
    """Perform the draw; return {'result': ["ok", text, cc] | ["exc", class, msg], ...probes}."""
    import schwifty
    from schwifty import exceptions

    prng = simrandom.make_prng(case["prng"])
    fn = schwifty.IBAN.random if case["api"] == "iban" else schwifty.BBAN.random
    tap = simrandom.EntropyTaps()
    obj = None
    try:
        # every foreign entropy / clock source is pinned to a fixed value (level `force`), so that even a tree that
        # wrongly consults one gives a repeatable result; whether it consults one is what the taps and the
        # comparison between two force levels decide
        with simrandom.Perturb(force):
            if taps:
                with tap:
                    obj = fn(case["country"], random=prng, use_registry=case["use_registry"], **case["pinned"])
            else:
                obj = fn(case["country"], random=prng, use_registry=case["use_registry"], **case["pinned"])
        cc = obj.country_code
        result = ["ok", str(obj), cc, type(obj).__name__]
    except exceptions.GenerateRandomOverflowError as e:
        result = ["overflow", type(e).__name__, str(e)]
    except Exception as e:  # noqa: BLE001
        result = ["exc", f"{type(e).__module__}.{type(e).__qualname__}", str(e)[:300]]
    calls = getattr(prng, "calls", None)
    return {"result": result, "obj": obj, "entropy": list(tap.events), "prng_calls": calls}


def check_draw(case: dict, d: dict, info: dict) -> dict | None:
    """The per-draw oracle.  Returns a violation dict or None."""
    import schwifty

    res = d["result"]
    cc_req = case["country"]
    base_sig = {"api": case["api"]}

    def v(kind, detail, **sig):
        return {"kind": kind, "signature": dict(base_sig, kind=kind, **sig), "case": case, "result": res,
                "detail": f"{case['api']}.random({cc_req!r}, random={case['prng']}, use_registry={case['use_registry']}, "
                          f"**{case['pinned']}) -> {res[:3]}: {detail}"}

    if d["entropy"]:
        return v("foreign-entropy", f"the result depends on entropy/time other than the supplied generator "
                 f"({sorted(set(d['entropy']))}): forcing those sources to two different fixed values gave "
                 f"{d.get('perturbed')}", tap=sorted(set(d["entropy"]))[0])
    if res[0] == "overflow":
        return None
    if res[0] == "exc":
        if cc_req and cc_req not in info["spec"]:
            return None
        return v("unexpected-exception", "neither a result nor the documented overflow error", exc=res[1])
    text, cc = res[1], res[2]
    obj = d["obj"]
    if cc_req:
        if cc != cc_req:
            return v("wrong-country", f"country {cc!r} instead of {cc_req!r}", country=cc_req)
    elif cc not in info["spec"]:
        return v("wrong-country", f"country {cc!r} is not in the country table", country="")
    sp = info["spec"][cc]
    if case["api"] == "iban":
        if res[3] != "IBAN":
            return v("invalid-object", f"returned a {res[3]}", reason="type")
        bban = text[4:]
        if len(text) != sp["iban_length"] or text[:2] != cc or not text[2:4].isdigit():
            return v("invalid-object", "length/country/check digits malformed", reason="shape")
        if not structure_regex(sp["bban_spec"]).fullmatch(bban):
            return v("invalid-object", f"BBAN {bban!r} does not match {sp['bban_spec']}", reason="structure")
        if not mod97_ok(text):
            return v("invalid-object", "mod-97 check fails", reason="mod97")
        try:
            again = schwifty.IBAN(text)
        except Exception as e:  # noqa: BLE001
            return v("invalid-object", f"does not re-parse: {type(e).__name__}: {e}", reason="reparse")
        if str(again) != text:
            return v("invalid-object", "re-parse gives a different text", reason="reparse")
        bb = obj.bban
    else:
        if res[3] != "BBAN":
            return v("invalid-object", f"returned a {res[3]}", reason="type")
        if not structure_regex(sp["bban_spec"]).fullmatch(text) or len(text) != sp["bban_length"]:
            return v("invalid-object", f"BBAN {text!r} does not match {sp['bban_spec']}", reason="structure")
        bb = obj
    if sp["has_positions"]:
        for name, value in case["pinned"].items():
            try:
                got = getattr(bb, name)
            except Exception as e:  # noqa: BLE001
                return v("invalid-object", f"reading {name} of the returned object raised {type(e).__name__}: {e}", reason="accessor")
            if got != value:
                return v("pinned-not-honoured", f"pinned {name}={value!r} came back as {got!r}",
                         component=name, use_registry=case["use_registry"], country=cc)
    if case["use_registry"] and cc in info["all_have_code"] and not (set(case["pinned"]) & set(sp["lookup"])):
        try:
            bank = bb.bank
        except Exception as e:  # noqa: BLE001
            return v("invalid-object", f"reading .bank of the returned object raised {type(e).__name__}: {e}", reason="accessor")
        if bank is None:
            return v("unlisted-bank", f"registry-based draw {text} does not belong to a listed bank", country=cc)
    return None


def run_cases_child(cases: list, info: dict, history_seed: int | None) -> list:
    """Evaluate cases in this process: each twice (same-process reproducibility) with the oracle on
    the first draw.  Optionally after a random call history (history_seed)."""
    out = []
    if history_seed is not None:
        rng = random.Random(history_seed)
        weights = gen.swarm_weights(rng)
        # ordinary calls only (failing ones included).  Calls interrupted half-way were tried here for a while and
        # removed again: C13 says "identical on every call, in every process", it says nothing about calls after an
        # interrupted call - that is C15's statement ("including calls that failed") and C15's fault model.
        for _ in range(5 + rng.randrange(25)):
            op, _ = gen.gen_op(rng, runner.POOL, weights)
            ops.execute(op)
    for case in cases:
        d1 = draw(case)
        touched = False
        if d1["entropy"]:
            # the draw touched randomness/clocks other than the supplied generator: does the RESULT depend on them?
            p1 = draw(case, taps=False, force=1)["result"]
            p2 = draw(case, taps=False, force=2)["result"]
            if p1 == p2 == d1["result"]:
                d1["entropy"] = []  # harmless (e.g. statistics, logging): counted, not flagged
                touched = True
            else:
                d1["perturbed"] = [p1[:3], p2[:3]]
        viol = check_draw(case, d1, info)
        d2 = draw(case, taps=False)
        if viol is None and d2["result"] != d1["result"]:
            viol = {"kind": "not-reproducible", "signature": {"kind": "not-reproducible", "leg": "same-process", "api": case["api"]},
                    "case": case, "result": d1["result"],
                    "detail": f"{case} gave {d1['result'][:3]} and then {d2['result'][:3]} in the same process"}
        out.append({"index": case["index"], "result": d1["result"], "violation": viol, "prng_calls": d1["prng_calls"],
                    "entropy_touched_harmlessly": touched})
    return out


# ---------------------------------------------------------------------------------------------
# worker
# ---------------------------------------------------------------------------------------------


def worker_task(task: dict) -> dict:
    isolate.worker_guard()
    vseed = task["vseed"]
    cases = [] if runner.past(task.get("deadline")) else [gen_case(i, vseed, INFO) for i in task["indices"]]
    if not cases:
        return {"draws": 0, "violations": [], "violation_count": 0, "results": {}, "classes": [], "violating": [],
                "probes": {"tasks_cut_short_by_wall_clock_cap": 1}, "outcomes": {}, "prng_calls": 0, "samples": []}
    first = isolate.fork_call(run_cases_child, (cases, INFO, None), timeout=600)
    hseed = core.run_seed(vseed, PROP + "-history", task["indices"][0])
    after = isolate.fork_call(run_cases_child, (cases, INFO, hseed), timeout=600)
    st = {"draws": 0, "violations": [], "violation_count": 0, "results": {}, "classes": set(), "probes": {}, "violating": [],
          "outcomes": {}, "prng_calls": 0, "samples": []}

    def probe(name, n=1):
        st["probes"][name] = st["probes"].get(name, 0) + n

    for case, a, b in zip(cases, first, after):
        st["draws"] += 4  # each case: twice in a pristine fork, twice after a call history
        viol = a["violation"]
        if viol is None and b["violation"] is not None:  # only the draw after the call history violates
            viol = dict(b["violation"], history_seed=hseed)
            viol["signature"] = dict(viol["signature"], leg="after-history")
        if viol is None and a["result"] != b["result"]:
            viol = {"kind": "not-reproducible", "signature": {"kind": "not-reproducible", "leg": "after-history", "api": case["api"]},
                    "case": case, "result": a["result"], "history_seed": hseed,
                    "detail": f"{case} gave {a['result'][:3]} in a pristine process but {b['result'][:3]} after a call history"}
        st["results"][case["index"]] = a["result"][:3]
        kind = a["result"][0]
        st["outcomes"][kind] = st["outcomes"].get(kind, 0) + 1
        calls = a["prng_calls"]
        if calls:
            st["prng_calls"] += calls
        bias = case["prng"][2] if case["prng"][0] == "scripted" else "mt"
        st["classes"].add(core.jdump([case["country"], case["api"], case["use_registry"], sorted(case["pinned"]), bias, kind]))
        if kind == "overflow":
            probe("overflow_raised")
        if a.get("entropy_touched_harmlessly"):
            probe("foreign_entropy_touched_but_result_independent")
        if bias not in ("mt", "uniform"):
            probe("scripted_biased_prng_draws", 2)
        if calls and calls > 60:
            probe("retry_or_long_draw (>60 PRNG decisions)")
        if not case["country"]:
            probe("no_country_form")
        elif not INFO["spec"][case["country"]]["has_positions"]:
            probe("no_positions_path")
        if case["country"] in ("MU", "SC"):
            probe("default_currency_code_path")
        if case["country"] in ("PL", "SI") and case["use_registry"]:
            probe("combined_bank_branch_registry_code")
        if case["country"] in ("CY", "GR", "SA") and case["use_registry"]:
            probe("country_with_empty_bank_code_entries")
        if case["pinned"]:
            probe("draws_with_pinned_components")
        if viol is not None:
            st["violation_count"] += 1
            st["violating"].append(case["index"])
            if len(st["violations"]) < 4:
                st["violations"].append({"property": PROP, "engine": core.ENGINE_VERSION, "verif_seed": vseed,
                                         "run_index": case["index"], "pythonhashseed": core.HASHSEED,
                                         "prelude_indices": [c["index"] for c in cases if c["index"] < case["index"]],
                                         "draw": case, "history_seed": viol.get("history_seed"), "violation": viol})
        elif len(st["samples"]) < 1 and case["pinned"] and kind == "ok":
            st["samples"].append({"case": case, "result": a["result"][:3], "prng_decisions": calls})
    st["classes"] = sorted(st["classes"])
    return st


# ---------------------------------------------------------------------------------------------
# fresh interpreters under other hash seeds
# ---------------------------------------------------------------------------------------------


def eval_cases_mode(path: str) -> int:
    """Child mode (fresh interpreter, inherited PYTHONHASHSEED, no re-exec): evaluate listed cases."""
    import warnings

    warnings.simplefilter("ignore")
    with open(path, encoding="utf-8") as fp:
        doc = json.load(fp)
    if doc.get("listing_seed") is not None:
        # "every process" includes processes whose file system lists the registry directories in another order:
        # serve the real bundled files through the simulated storage with a shuffled listing
        from sim import simfs

        src = core.install_tree()
        fs = simfs.SimFS()
        rnd = random.Random(doc["listing_seed"])
        for d in ("iban_registry", "bank_registry"):
            real = os.path.join(src, "schwifty", d)
            files = {}
            for n in sorted(os.listdir(real)):
                full = os.path.join(real, n)
                if os.path.isfile(full):
                    with open(full, "rb") as fh:
                        files[n] = fh.read()
            order = list(files)
            rnd.shuffle(order)
            fs.set_dir(d, files, order)
        for alias in (os.path.join(src, "schwifty"), os.path.realpath(os.path.join(src, "schwifty"))):
            simfs.ALIASES.append(alias)
        simfs.install(fs)
    core.import_tree(core.install_tree())
    out = {}
    for case in doc["cases"]:
        out[str(case["index"])] = draw(case, taps=False)["result"][:3]
    print("RESULTS " + core.jdump(out))
    return 0


def fresh_results(cases: list, hashseed: str) -> dict:
    with tempfile.NamedTemporaryFile("w", suffix=".json", prefix="c13cases", delete=False) as fp:
        json.dump({"cases": cases, "listing_seed": int(hashseed) % 9973 + 1}, fp)
        path = fp.name
    try:
        res = isolate.fresh_python([SCRIPT, "--eval-cases", path], hashseed=hashseed, timeout=900)
    finally:
        os.unlink(path)
    if res.returncode != 0:
        raise core.HarnessError(f"fresh interpreter (hashseed {hashseed}) failed: {res.stderr.decode()[-1500:]}")
    line = [ln for ln in res.stdout.decode().splitlines() if ln.startswith("RESULTS ")][-1]
    return json.loads(line[len("RESULTS "):])


def _fresh_task(item):
    cases, hashseed = item
    return hashseed, fresh_results(cases, hashseed)


# ---------------------------------------------------------------------------------------------
# confirm / minimise / replay
# ---------------------------------------------------------------------------------------------


def evaluate_single(rec: dict) -> dict | None:
    """Re-derive the violation of one record in a pristine fork (and fresh interpreter if needed)."""
    case = rec["draw"]
    leg = rec["violation"]["signature"].get("leg")
    before = [gen_case(i, rec["verif_seed"], INFO) for i in rec.get("prelude_indices", [])]
    if leg == "fresh-interpreter":
        hs = rec["violation"]["hashseed"]
        base = isolate.fork_call(run_cases_child, ([*before, case], INFO, None), timeout=300)[-1]
        fresh_before = [gen_case(i, rec["verif_seed"], INFO) for i in rec.get("fresh_prelude_indices", [])]
        other = fresh_results([*fresh_before, case], hs)[str(case["index"])]
        if base["violation"] is None and other != base["result"][:3]:
            return dict(rec["violation"], detail=f"{case} gave {base['result'][:3]} here but {other} in a fresh interpreter under PYTHONHASHSEED={hs}")
        return base["violation"]
    a = isolate.fork_call(run_cases_child, ([*before, case], INFO, None), timeout=300)[-1]
    if a["violation"] is not None:
        return a["violation"]
    if leg == "after-history" and rec.get("history_seed") is not None:
        b = isolate.fork_call(run_cases_child, ([*before, case], INFO, rec["history_seed"]), timeout=300)[-1]
        if b["violation"] is not None:
            v = dict(b["violation"], history_seed=rec["history_seed"])
            v["signature"] = dict(v["signature"], leg="after-history")
            return v
        if b["result"] != a["result"]:
            return dict(rec["violation"], detail=f"{case} gave {a['result'][:3]} pristine but {b['result'][:3]} after history seed {rec['history_seed']}")
    return None


def confirm(rec: dict) -> dict | None:
    viol = evaluate_single(rec)
    if viol is None:
        return None
    r = json.loads(json.dumps({k: v for k, v in rec.items() if k != "violation"}))
    r["violation"] = json.loads(json.dumps({k: v for k, v in viol.items() if k != "obj"}))
    return r


def minimise(rec: dict) -> dict:
    want = report.class_key(rec)
    best = rec
    orig = {"pinned": sorted(rec["draw"]["pinned"]), "prng": rec["draw"]["prng"]}

    def attempt(c) -> bool:
        nonlocal best
        try:
            got = confirm(c)
        except core.HarnessError:
            return False
        if got is not None and report.class_key(got) == want:
            best = got
            return True
        return False

    if best.get("fresh_prelude_indices"):  # earlier draws in the fresh interpreter: usually irrelevant
        c = json.loads(json.dumps(best))
        c["fresh_prelude_indices"] = []
        attempt(c)
    if best.get("prelude_indices"):  # earlier draws of the same process: none, else a shorter suffix
        c = json.loads(json.dumps(best))
        c["prelude_indices"] = []
        if not attempt(c):
            size = len(best["prelude_indices"]) // 2
            while size >= 1 and best.get("prelude_indices"):
                c = json.loads(json.dumps(best))
                c["prelude_indices"] = best["prelude_indices"][size:]
                if not attempt(c):
                    size //= 2
        return_early = bool(best.get("prelude_indices"))
        if return_early:
            best["minimised_from"] = orig
            return best
    for name in sorted(best["draw"]["pinned"]):
        c = json.loads(json.dumps(best))
        del c["draw"]["pinned"][name]
        attempt(c)
    if best["draw"]["prng"][0] == "scripted":
        for s in range(8):
            c = json.loads(json.dumps(best))
            c["draw"]["prng"] = ["mt", s]
            if attempt(c):
                break
    elif best["draw"]["prng"][1] > 16:
        for s in range(8):
            c = json.loads(json.dumps(best))
            c["draw"]["prng"] = ["mt", s]
            if attempt(c):
                break
    if best["draw"]["api"] == "iban":
        c = json.loads(json.dumps(best))
        c["draw"]["api"] = "bban"
        # only a simplification if the class (which names the api) stays the same: skipped by class_key
    best["minimised_from"] = orig
    return best


def setup_process() -> None:
    runner.bootstrap()
    runner.build_pool_isolated()
    INFO.clear()
    INFO.update(isolate.fork_call(collect_info, timeout=120))


def replay(path: str) -> int:
    with open(path, encoding="utf-8") as fp:
        rec = json.load(fp)
    setup_process()
    want = report.class_key(rec)
    viol = evaluate_single(rec)
    print(f"replay {path}: tree={core.src_dir()}")
    if viol is not None and core.jdump(viol["signature"]) == want:
        print(f"REPRODUCED property={PROP} class={want}")
        print("  " + viol["detail"])
        print(f"VIOLATION property={PROP} replay={path}")
        return core.EXIT_VIOLATION
    print(f"NOT REPRODUCED property={PROP} (violation now: {viol and viol['signature']})")
    return core.EXIT_OK


# ---------------------------------------------------------------------------------------------
# main
# ---------------------------------------------------------------------------------------------


def main() -> int:
    ap = argparse.ArgumentParser()
    ap.add_argument("--tier", default=os.environ.get("VERIF_TIER", "quick"), choices=["quick", "thorough"])
    ap.add_argument("--replay")
    ap.add_argument("--eval-cases")
    ap.add_argument("--runs", type=int)
    ap.add_argument("--digests", action="store_true")
    ap.add_argument("--no-evidence", action="store_true")
    args = ap.parse_args()
    if args.eval_cases:
        return eval_cases_mode(args.eval_cases)
    if args.replay:
        return replay(args.replay)

    timer = runner.Timer()
    setup_process()
    vseed = core.verif_seed()
    print(f"VERIF_SEED={vseed} property={PROP} tier={args.tier} tree={core.src_dir()} workers={core.workers()}")
    ncases = args.runs if args.runs is not None else int(os.environ.get("VERIF_RUNS") or (38_100 if args.tier == "quick" else 1_500_000))
    derived = str(core.run_seed(vseed, PROP + "-hashseed", 0) % 4294967295)
    hashseeds = ["1", "4242", derived, "0"] if args.tier == "quick" else \
        ["0", "1", "2", "3", "7", "42", "4242", "65535", "99991", "123456789", "4294967295", derived] + \
        [str(core.run_seed(vseed, PROP + "-hashseed", k) % 4294967295) for k in range(1, 5)]
    nfresh = 3810 if args.tier == "quick" else 12_700
    deadline = runner.wall_cap(args.tier)
    tasks = [{"indices": ch, "vseed": vseed, "deadline": deadline} for ch in runner.chunks(list(range(ncases)), 128)]
    fresh_cases = [gen_case(i, vseed, INFO) for i in range(0, ncases, max(1, ncases // nfresh))][:nfresh]
    wp = isolate.Pool(core.workers())
    agg = {"draws": 0, "violation_count": 0, "prng_calls": 0}
    results: dict = {}
    violating: set = set()
    classes: set = set()
    probes: dict = {}
    outcomes: dict = {}
    violations: list = []
    samples: list = []
    fresh_done = 0
    limit = max(7000 if args.tier == "thorough" else 1500, (deadline - __import__("time").time()) + 900)
    try:
        fresh_futs = [wp.ex.submit(_fresh_task, (fresh_cases, hs)) for hs in hashseeds]
        for task, st in wp.map_unordered(worker_task, tasks, timeout=limit):
            for k in agg:
                agg[k] += st[k]
            results.update(st["results"])
            violating.update(st["violating"])
            classes.update(st["classes"])
            for src, dst in ((st["probes"], probes), (st["outcomes"], outcomes)):
                for k, v in src.items():
                    dst[k] = dst.get(k, 0) + v
            violations.extend(st["violations"])
            if len(samples) < 4:
                samples.extend(st["samples"])
        print(f"exploration finished after {timer.elapsed():.1f}s; violations_seen={agg['violation_count']}")
        sys.stdout.flush()
        for fut in fresh_futs:
            hs, fres = fut.result(timeout=limit)
            for case in fresh_cases:
                fresh_done += 1
                got = fres[str(case["index"])]
                want = results.get(case["index"])
                if want is not None and got != want and case["index"] not in violating:
                    agg["violation_count"] += 1
                    violations.append({"property": PROP, "engine": core.ENGINE_VERSION, "verif_seed": vseed,
                                       "run_index": case["index"], "pythonhashseed": core.HASHSEED, "draw": case,
                                       "prelude_indices": list(range((case["index"] // 128) * 128, case["index"])),
                                       "fresh_prelude_indices": [c["index"] for c in fresh_cases if c["index"] < case["index"]],
                                       "violation": {"kind": "not-reproducible", "hashseed": hs, "case": case,
                                                     "signature": {"kind": "not-reproducible", "leg": "fresh-interpreter", "api": case["api"]},
                                                     "detail": f"{case} gave {want} in the check process but {got} in a fresh interpreter under PYTHONHASHSEED={hs}"}})
    finally:
        wp.close()
    if args.digests:
        for i in sorted(results):
            print(f"DIGEST {i} {core.jhash(results[i])}")
    violations.sort(key=lambda r: (str(r["violation"]["signature"]), r["run_index"]))
    unlisted = report.process(PROP, violations, confirm, minimise, SCRIPT)
    wall = timer.elapsed()
    for name in ("overflow_raised", "no_positions_path", "default_currency_code_path", "combined_bank_branch_registry_code",
                 "country_with_empty_bank_code_entries", "no_country_form", "retry_or_long_draw (>60 PRNG decisions)"):
        probes.setdefault(name, 0)
        if probes[name] == 0:
            print(f"warning: probe {name} never fired")
    cov = {
        "evaluations": agg["draws"] + fresh_done,
        "distinct_nontrivial": len(classes),
        "rule": "one evaluation = one call of IBAN.random/BBAN.random under a simulator-owned generator (each generated "
                "case is drawn twice in a pristine fork, twice more after a random call history, and a sample again in "
                "fresh interpreters under other PYTHONHASHSEED values); distinct non-trivial = distinct (country, api, "
                "registry mode, set of pinned components, PRNG bias, outcome class) tuples in which the generator was consulted",
        "samples": samples[:4] or [{"note": "no sample"}],
        "cases": ncases, "countries": len(INFO["countries"]),
        "fresh_interpreter_draws": fresh_done, "hash_seeds": hashseeds,
        "outcome_classes": outcomes,
        "prng_decisions_logged_scripted": agg["prng_calls"],
        "runs_per_hour": int((agg["draws"] + fresh_done) / wall * 3600) if wall > 0 else 0,
        "seeds": {"verif_seed": vseed, "first_case_index": 0, "last_case_index": ncases - 1,
                  "derivation": "sha256(f'{VERIF_SEED}:C13:{i}')[:16]"},
        "simulated_time": "n/a (library has no clock; time.* is tapped and must stay silent)",
        "faults_fired": {"adversarial_prng_stream_draws": probes.get("scripted_biased_prng_draws", 0),
                         "entropy_taps_armed_draws": agg["draws"] // 2,  # the first draw of each pair
                         "hash_seed_variation_draws": fresh_done,
                         "shuffled_registry_directory_listing_draws": fresh_done,
                         "warm_process_draws": agg["draws"] // 2},
        "probes": probes,
        "components": {"real": ["schwifty (tree under test)", "rstr", "bundled registries", "pycountry"],
                       "stub": ["PRNG (seeded MT / ScriptedRandom with biases)", "entropy sources (tapped: global random state, "
                                "Random() OS seeding, os.urandom, time.*)", "process and PYTHONHASHSEED (varied)", "directory listing order of the bundled registries in the fresh-interpreter leg (real contents served through SimFS, shuffled)"]},
        "violations_seen": agg["violation_count"],
        "tree_sha256": core.tree_digest(),
    }
    if not args.no_evidence:
        evidence.write(PROP, args.tier, vseed, cov, wall, unlisted, [
            "pinned values are structure-conforming, upper-case and of exact field width; national_checksum_digits (a computed field) is never pinned",
            "validity = the library's own re-parse AND an independent structure + mod-97 check from the country's published bban_spec; national validity is not demanded (C09)",
            "the listed-bank clause is asserted only with the registry on, in countries all of whose entries carry a bank code, and when no bank-identifying component is pinned",
            "sampling, not enumeration",
        ])
    print(f"C13 {args.tier}: cases={ncases} draws={agg['draws']} fresh_draws={fresh_done} hashseeds={len(hashseeds)} "
          f"classes={len(classes)} outcomes={outcomes} violations_seen={agg['violation_count']} unlisted_classes={unlisted} wall={wall:.1f}s")
    if unlisted:
        return core.EXIT_VIOLATION
    if probes.get("tasks_cut_short_by_wall_clock_cap"):
        raise core.HarnessError("incomplete exploration: the wall-clock safety cap cut tasks short; a truncated run is "
                                "never reported as a pass (raise VERIF_WALL_CAP or lower --runs)")
    return core.EXIT_OK


if __name__ == "__main__":
    core.main_wrapper(main)
