#!/venv/bin/python
"""C18 — registry files compose in name order: deep later-wins merge, list concatenation.

The storage is simulated: ``importlib.resources.files`` returns an in-memory directory whose
listing order is chosen by the run PRNG and whose ``open()`` goes through a fault injector and a
simulated locale.  Real code: ``schwifty/registry.py`` (module-level runs use an isolated instance
of its source), and in end-to-end runs the whole package imported on top of the simulated storage.
See DESIGN.md §6.
"""

from __future__ import annotations

import argparse
import copy
import hashlib
import json
import os
import random
import sys
import tempfile
import types

sys.path.insert(0, os.path.dirname(os.path.dirname(os.path.abspath(__file__))))

from sim import core, evidence, isolate, regmodel, report, runner, simfs  # noqa: E402

PROP = "C18"
SCRIPT = os.path.join("checks", "c18.py")
# A seventh kind, EIO on the directory *listing*, was withdrawn (DESIGN 9.15): pathlib's and glob's selectors swallow
# every OSError of the listing, so it is not a fault "every loader can detect" - a loader sees an empty directory.
FAULT_KINDS = ["EIO", "EMFILE", "ENOENT", "short", "torn", "badutf8"]
_CODE = None


# ---------------------------------------------------------------------------------------------
# configuration
# ---------------------------------------------------------------------------------------------


def gen_config(index: int, vseed: int, mode: str) -> dict:
    """mode: 'module' | 'e2e' | 'fault' | 'e2efault' (import under a read fault, heal, import again)."""
    seed = core.run_seed(vseed, f"{PROP}-{mode}", index)
    rng = random.Random(seed)
    if mode == "module" and rng.random() < 0.5:
        iban = regmodel.gen_tree_config(rng)
        eff = None
    else:
        iban = regmodel.gen_spec_config(rng)
        eff = regmodel.ref_iban(iban["files"])
    bank = regmodel.gen_bank_config(rng, eff)
    locale = rng.choice(["utf-8", "utf-8", "ascii", "latin-1"])
    cfg = {"property": PROP, "engine": core.ENGINE_VERSION, "verif_seed": vseed, "run_index": f"{mode}-{index}",
           "run_seed": str(seed), "pythonhashseed": core.HASHSEED, "mode": mode,
           "fs": {"iban_registry": iban["files"], "bank_registry": bank["files"],
                  "order": {"iban_registry": iban["order"], "bank_registry": bank["order"]},
                  "locale": locale, "faults": []},
           "iban_kind": iban["kind"], "check_seed": rng.getrandbits(32),
           "alt_orders": [[_shuffle(rng, iban["order"]), _shuffle(rng, bank["order"])] for _ in range(2)]}
    if mode in ("fault", "e2efault"):
        d = rng.choice(["iban_registry", "bank_registry"])
        js = regmodel.json_names(cfg["fs"][d])
        pos = rng.choice(["first", "middle", "last"])
        if pos == "middle" and len(js) < 3:
            pos = "last"  # there is no middle file among fewer than three
        f = js[0] if pos == "first" else js[-1] if pos == "last" else js[len(js) // 2]
        cfg["fs"]["faults"] = [{"dir": d, "file": f, "kind": rng.choice(FAULT_KINDS), "frac": rng.random(),
                                "position": pos if len(js) > 1 else "only"}]
    return cfg


def _shuffle(rng, xs):
    ys = list(xs)
    rng.shuffle(ys)
    return ys


def make_fs(cfg: dict, order_override=None) -> simfs.SimFS:
    pkg = os.path.join(core.src_dir(), "schwifty")
    for alias in (pkg, os.path.realpath(pkg)):
        if alias not in simfs.ALIASES:
            simfs.ALIASES.append(alias)
    fs = simfs.SimFS()
    for i, d in enumerate(("iban_registry", "bank_registry")):
        files = {n: c.encode("utf-8") for n, c in cfg["fs"][d].items()}
        order = order_override[i] if order_override else cfg["fs"]["order"][d]
        order = [n for n in order if n in files] + [n for n in files if n not in order]
        fs.set_dir(d, files, order)
    fs.locale = cfg["fs"]["locale"]
    return fs


def registry_code():
    global _CODE
    if _CODE is None:
        path = os.path.join(core.src_dir(), "schwifty", "registry.py")
        with open(path, encoding="utf-8") as fp:
            _CODE = (compile(fp.read(), path, "exec"), path)
    return _CODE


def fresh_registry_module():
    code, path = registry_code()
    if "simreg" not in sys.modules:
        parent = types.ModuleType("simreg")
        parent.__path__ = []  # a package
        parent.__file__ = os.path.join(os.path.dirname(path), "__init__.py")
        sys.modules["simreg"] = parent
    mod = types.ModuleType("simreg.registry")
    mod.__package__ = "simreg"
    mod.__file__ = path
    sys.modules["simreg.registry"] = mod  # dataclasses, pickle, typing look the defining module up by name
    sys.modules["simreg"].registry = mod
    exec(code, mod.__dict__)  # noqa: S102 - the tree under test
    return mod


def viol(kind: str, detail: str, **sig) -> dict:
    return {"kind": kind, "signature": dict(sig, kind=kind), "detail": detail[:700]}


def seam_bypassed(e: BaseException, fs: simfs.SimFS) -> bool:
    fn = getattr(e, "filename", None)
    return isinstance(e, OSError) and isinstance(fn, str) and fn.startswith(simfs.ROOT) and fs.fault_fired is None \
        and "simulated" not in str(e)


# ---------------------------------------------------------------------------------------------
# module-level runs (fault-free): reference merge, order independence, merge_dicts purity, overlay law
# ---------------------------------------------------------------------------------------------


def load_both(cfg: dict, order_override=None):
    fs = make_fs(cfg, order_override)
    simfs.install(fs)
    mod = fresh_registry_module()
    return fs, mod, mod.get("iban"), mod.get("bank")


def run_module_child(cfg: dict) -> dict:
    want_iban = regmodel.ref_iban(cfg["fs"]["iban_registry"])
    want_bank = regmodel.ref_bank(cfg["fs"]["bank_registry"])
    res = {"violation": None, "fs_events": 0, "probes": {}, "digest": None}
    try:
        fs, mod, got_iban, got_bank = load_both(cfg)
    except BaseException as e:  # noqa: BLE001
        fs = simfs.FS
        if seam_bypassed(e, fs):
            raise core.HarnessError(f"storage seam bypassed: {e!r}") from e
        res["violation"] = viol("load-failed", f"loading a well-formed registry set raised {type(e).__name__}: {e} "
                                f"(simulated locale {cfg['fs']['locale']})", exc=type(e).__name__)
        return res
    res["fs_events"] = len(fs.events)
    if not any(e[0] == "open" for e in fs.events):
        raise core.HarnessError("storage seam bypassed: the loader returned data without opening any simulated file")
    res["probes"]["default_encoding_open"] = fs.default_encoding_opens
    d = regmodel.first_diff(want_iban, regmodel.strip_regex(got_iban))
    if d:
        res["violation"] = viol("iban-table-differs", f"effective country table is not the name-ordered deep merge: {d}")
        return res
    d = regmodel.first_diff(want_bank, got_bank)
    if d:
        res["violation"] = viol("bank-list-differs", f"effective bank list is not the name-ordered concatenation: {d}")
        return res
    res["digest"] = hashlib.sha256(json.dumps([regmodel.strip_regex(got_iban), got_bank], sort_keys=True,
                                              default=repr).encode()).hexdigest()  # of what the loader returned
    # (4) repeated get
    again_i, again_b = mod.get("iban"), mod.get("bank")
    if regmodel.first_diff(want_iban, regmodel.strip_regex(again_i)) or regmodel.first_diff(want_bank, again_b):
        res["violation"] = viol("repeated-get-differs", "a second get() returned different data")
        return res
    # (6) other enumeration orders
    for alt in cfg.get("alt_orders", []):
        try:
            _, _, gi, gb = load_both(cfg, alt)
        except BaseException as e:  # noqa: BLE001
            res["violation"] = viol("enumeration-order-dependence", f"load raised {type(e).__name__} under another listing order",
                                    registry="any")
            return res
        d = regmodel.first_diff(want_iban, regmodel.strip_regex(gi))
        if d:
            res["violation"] = viol("enumeration-order-dependence", f"country table depends on directory listing order: {d}",
                                    registry="iban")
            return res
        d = regmodel.first_diff(want_bank, gb)
        if d:
            res["violation"] = viol("enumeration-order-dependence", f"bank list depends on directory listing order: {d}",
                                    registry="bank")
            return res
    # (3) merge_dicts called directly leaves its inputs alone
    names = regmodel.json_names(cfg["fs"]["iban_registry"])
    docs = [json.loads(cfg["fs"]["iban_registry"][n]) for n in names]
    if len(docs) >= 2 and hasattr(mod, "merge_dicts"):
        left, right = docs[0], docs[1]
        l0, r0 = copy.deepcopy(left), copy.deepcopy(right)
        merged = mod.merge_dicts(left, right)
        if left != l0 or right != r0:
            res["violation"] = viol("merge-mutates-input", "merge_dicts changed one of its arguments")
            return res
        d = regmodel.first_diff(regmodel.deep_merge(l0, r0), merged)
        if d:
            res["violation"] = viol("merge-result-wrong", f"merge_dicts(left, right) is not the deep later-wins merge: {d}")
            return res
        m0 = copy.deepcopy(merged)
        mod.merge_dicts(merged, docs[-1])
        if merged != m0 or left != l0 or right != r0:
            res["violation"] = viol("merge-mutates-input", "a later merge changed an earlier result or input")
            return res
        res["probes"]["merge_dicts_direct"] = 1
    # (2) overlay law, model-free: B vs B + O
    if len(names) >= 2:
        base_cfg = json.loads(json.dumps(cfg))
        last = names[-1]
        overlay = json.loads(cfg["fs"]["iban_registry"][last])
        del base_cfg["fs"]["iban_registry"][last]
        try:
            _, _, base_tab, _ = load_both(base_cfg)
        except BaseException as e:  # noqa: BLE001
            res["violation"] = viol("load-failed", f"loading without the last overlay raised {type(e).__name__}: {e}", exc=type(e).__name__)
            return res
        base_tab = regmodel.strip_regex(base_tab)
        full_tab = regmodel.strip_regex(got_iban)
        named = [p for p, _ in regmodel.leaf_paths(overlay)]
        for path, value in regmodel.leaf_paths(base_tab):
            touched = any(path[:len(q)] == q or q[:len(path)] == path for q in named)
            if touched:
                continue
            now = regmodel.lookup(full_tab, path)
            if now is KeyError or now != value or type(now) is not type(value):
                res["violation"] = viol("overlay-touches-unnamed-key",
                                        f"overlay {last} names {named[:4]} but changed {'/'.join(map(str, path))}: {value!r} -> {now!r}")
                return res
        for path, value in regmodel.leaf_paths(overlay):
            now = regmodel.lookup(full_tab, path)
            if value == {} and isinstance(value, dict) and isinstance(now, dict):
                continue  # an empty dict merges into whatever dict is there
            if now is KeyError or now != value:
                res["violation"] = viol("overlay-not-applied", f"last overlay's {'/'.join(map(str, path))}={value!r} is {now!r} in the effective table")
                return res
        res["probes"]["overlay_law_checked"] = 1
    return res


# ---------------------------------------------------------------------------------------------
# fault runs: a get that meets a fault may raise anything; if it returns, it must return the merge of
# all files; after heal the next get must return the merge of all files.
# ---------------------------------------------------------------------------------------------


def run_fault_child(cfg: dict) -> dict:
    want = {"iban": regmodel.ref_iban(cfg["fs"]["iban_registry"]), "bank": regmodel.ref_bank(cfg["fs"]["bank_registry"])}
    res = {"violation": None, "probes": {}, "fired": None, "raised": None}
    fault = cfg["fs"]["faults"][0]
    fs = make_fs(cfg)
    fs.fault = dict(fault)
    simfs.install(fs)
    mod = fresh_registry_module()
    name = "iban" if fault["dir"] == "iban_registry" else "bank"
    other = "bank" if name == "iban" else "iban"

    def differs(n, got):
        return regmodel.first_diff(want[n], regmodel.strip_regex(got) if n == "iban" else got)

    returned = None
    try:
        returned = mod.get(name)
    except BaseException as e:  # noqa: BLE001 - anything may be raised when a read fails
        res["raised"] = type(e).__name__
    res["fired"] = fs.fault_fired
    if fs.fault_fired is None:
        res["probes"]["fault_not_reached"] = 1
    if returned is not None and not any(e[0] == "open" for e in fs.events):
        raise core.HarnessError("storage seam bypassed: the loader returned data without opening any simulated file")
    if returned is not None:
        d = differs(name, returned)
        if d:
            res["violation"] = viol("fault-partial-result",
                                    f"get({name!r}) met a {fault['kind']} on {fault['file']} yet returned data that is not the merge of all files: {d}",
                                    fault=fault["kind"], registry=name)
            return res
        res["probes"]["returned_despite_fault"] = 1
    fs.heal()
    for n in (name, other):
        try:
            got = mod.get(n)
        except BaseException as e:  # noqa: BLE001
            if seam_bypassed(e, fs):
                raise core.HarnessError(f"storage seam bypassed: {e!r}") from e
            res["violation"] = viol("not-healed-after-fault", f"after the fault cleared get({n!r}) raised {type(e).__name__}: {e}",
                                    fault=fault["kind"], registry=n)
            return res
        d = differs(n, got)
        if d:
            res["violation"] = viol("not-healed-after-fault",
                                    f"after the {fault['kind']} on {fault['file']} cleared, get({n!r}) still is not the merge of all files: {d}",
                                    fault=fault["kind"], registry=n)
            return res
    return res


# ---------------------------------------------------------------------------------------------
# end-to-end runs: the whole package imported on the simulated storage
# ---------------------------------------------------------------------------------------------


def run_e2e_child(cfg: dict) -> dict:
    res = {"violation": None, "probes": {}, "digest": None}
    want_iban = regmodel.ref_iban(cfg["fs"]["iban_registry"])
    want_bank = regmodel.ref_bank(cfg["fs"]["bank_registry"])
    fs = make_fs(cfg)
    simfs.install(fs)
    if "schwifty" in sys.modules:
        raise core.HarnessError("end-to-end run needs a process that has not imported the package")
    faults = cfg["fs"]["faults"]
    res["fired"] = None
    res["raised"] = None
    if faults:
        # "crash and restart with only durable state surviving": the import meets a read fault; whatever
        # it leaves behind in the process (already imported submodules, their caches) survives into the
        # retry after the fault has cleared.
        fs.fault = dict(faults[0])
        try:
            core.import_tree(core.install_tree())
            res["probes"]["import_succeeded_despite_fault"] = 1
        except core.HarnessError:
            raise
        except BaseException as e:  # noqa: BLE001 - anything may be raised when a read fails
            res["raised"] = type(e).__name__
        res["fired"] = fs.fault_fired
        fs.heal()
    try:
        schwifty = core.import_tree(core.install_tree())
    except core.HarnessError:
        raise
    except BaseException as e:  # noqa: BLE001
        if seam_bypassed(e, fs):
            raise core.HarnessError(f"storage seam bypassed: {e!r}") from e
        if faults:
            res["violation"] = viol("not-healed-after-fault", f"after the {faults[0]['kind']} on {faults[0]['file']} cleared, importing the "
                                    f"package again raised {type(e).__name__}: {e}", fault=faults[0]["kind"], registry="import")
        else:
            res["violation"] = viol("e2e-import-failed", f"importing the package on a well-formed registry set raised "
                                    f"{type(e).__name__}: {e} (locale {cfg['fs']['locale']})", exc=type(e).__name__)
        return res
    from schwifty import exceptions, registry

    IBAN, BIC, BBAN = schwifty.IBAN, schwifty.BIC, schwifty.BBAN
    registry.get("iban"), registry.get("bank")  # a lazily loading tree reads the files here at the latest
    if not any(e[0] == "open" for e in fs.events):
        raise core.HarnessError("storage seam bypassed: the package loaded its registries without opening any simulated file")
    res["probes"]["default_encoding_open"] = fs.default_encoding_opens
    got_iban = regmodel.strip_regex(registry.get("iban"))
    d = regmodel.first_diff(want_iban, got_iban)
    if d and faults:
        res["violation"] = viol("not-healed-after-fault", f"after the {faults[0]['kind']} on {faults[0]['file']} cleared and the package was "
                                f"imported again, the country table still is not the merge of all files: {d}", fault=faults[0]["kind"], registry="iban")
        return res
    if d:
        res["violation"] = viol("iban-table-differs", f"effective country table is not the name-ordered deep merge: {d}")
        return res
    d = regmodel.first_diff(want_bank, registry.get("bank"))
    if d and faults:
        res["violation"] = viol("not-healed-after-fault", f"after the {faults[0]['kind']} on {faults[0]['file']} cleared and the package was "
                                f"imported again, the bank list still is not the merge of all files: {d}", fault=faults[0]["kind"], registry="bank")
        return res
    if d:
        res["violation"] = viol("bank-list-differs", f"effective bank list is not the name-ordered concatenation: {d}")
        return res
    res["digest"] = hashlib.sha256(json.dumps([got_iban, registry.get("bank")], sort_keys=True,
                                              default=repr).encode()).hexdigest()  # of what the package holds
    rng = random.Random(cfg["check_seed"])
    # structures that an earlier file gave a country but the effective table no longer has
    names = regmodel.json_names(cfg["fs"]["iban_registry"])
    history: dict[str, list[dict]] = {}
    merged: dict = {}
    for n in names:
        merged = regmodel.deep_merge(merged, json.loads(cfg["fs"]["iban_registry"][n]))
        for cc, sp in merged.items():
            snap = {"bban_spec": sp["bban_spec"], "bban_length": sp["bban_length"]}
            if not history.setdefault(cc, []) or history[cc][-1] != snap:
                history[cc].append(snap)
    for cc in sorted(want_iban):
        sp = want_iban[cc]
        bban = regmodel.conforming_bban(rng, sp["bban_spec"])
        try:
            ib = IBAN.from_bban(cc, bban)
        except Exception as e:  # noqa: BLE001
            res["violation"] = viol("e2e-structure-not-followed",
                                    f"{cc}: BBAN {bban!r} fits the effective structure {sp['bban_spec']} but from_bban raised {type(e).__name__}: {e}",
                                    aspect="accept")
            return res
        seen = {k: v for k, v in ib.spec.items() if k != "regex"}
        d = regmodel.first_diff(sp, seen)
        if d:
            res["violation"] = viol("e2e-spec-differs", f"{cc}: IBAN.spec is not the effective spec: {d}")
            return res
        for comp, (a, b) in sp["positions"].items():
            if [a, b] == [0, 0] or b > sp["bban_length"]:
                continue
            got = getattr(ib, comp, None)
            if got != bban[a:b]:
                res["violation"] = viol("e2e-component-position",
                                        f"{cc}: {comp} should sit at effective positions [{a},{b}] = {bban[a:b]!r}, got {got!r}",
                                        component=comp)
                return res
        if ib.in_sepa_zone != sp["in_sepa_zone"]:
            res["violation"] = viol("e2e-spec-differs", f"{cc}: in_sepa_zone {ib.in_sepa_zone} != effective {sp['in_sepa_zone']}")
            return res
        for old in history.get(cc, [])[:-1]:
            ob = regmodel.conforming_bban(rng, old["bban_spec"])
            fits_new = len(ob) == sp["bban_length"] and regmodel.structure_regex(sp["bban_spec"]).fullmatch(ob)
            if fits_new:
                continue
            res["probes"]["superseded_structure_probed"] = res["probes"].get("superseded_structure_probed", 0) + 1
            try:
                IBAN.from_bban(cc, ob)
            except exceptions.SchwiftyException:
                continue
            except Exception:  # noqa: BLE001 - any rejection will do
                continue
            res["violation"] = viol("e2e-structure-not-followed",
                                    f"{cc}: BBAN {ob!r} fits only the superseded structure {old['bban_spec']} (effective: {sp['bban_spec']}) yet was accepted",
                                    aspect="reject")
            return res
        # generation places components at the effective positions
        pos = sp["positions"]
        vals = {}
        expected = ["0"] * sp["bban_length"]
        ok = True
        for comp in ("bank_code", "branch_code", "account_code"):
            a, b = pos.get(comp, [0, 0])
            if [a, b] == [0, 0]:
                continue
            if b > sp["bban_length"]:
                ok = False
                break
            vals[comp] = bban[a:b]
            expected[a:b] = bban[a:b]
        if ok and all(ch in "0123456789ABCDEFGHIJKLMNOPQRSTUVWXYZ" for ch in "".join(vals.values())):
            try:
                built = str(BBAN.from_components(cc, **vals))
            except Exception as e:  # noqa: BLE001
                built = f"<{type(e).__name__}: {e}>"
            if built != "".join(expected):
                res["violation"] = viol("e2e-component-position",
                                        f"{cc}: from_components({vals}) should give {''.join(expected)!r} per effective positions, got {built!r}",
                                        component="generate")
                return res
    # bank lookups follow the effective list
    index: dict = {}
    by_bic: dict = {}
    for e in want_bank:
        if e["country_code"] and e["bank_code"]:
            index.setdefault((e["country_code"], e["bank_code"]), []).append(e)
        if e["bic"]:
            by_bic.setdefault(e["bic"], []).append(e)
    keys = sorted(index)
    rng.shuffle(keys)
    for cc, code in keys[:25]:
        entries = index[(cc, code)]
        exp = [e["bic"] for e in sorted(entries, key=lambda e: e["primary"], reverse=True) if e["bic"]]
        try:
            got = [str(b) for b in BIC.candidates_from_bank_code(cc, code)]
        except Exception as e:  # noqa: BLE001
            got = f"<{type(e).__name__}: {e}>"
        if got != exp:
            res["violation"] = viol("e2e-candidates", f"candidates_from_bank_code({cc!r}, {code!r}) should list {exp} (effective entries, primary first), got {got}")
            return res
        sp = want_iban.get(cc)
        if sp:
            lookup_by = sp.get("bic_lookup_components", ["bank_code"])
            width = sum(sp["positions"].get(c, [0, 0])[1] - sp["positions"].get(c, [0, 0])[0] for c in lookup_by)
            contiguous = all(sp["positions"].get(c, [0, 0]) != [0, 0] for c in lookup_by)
            if contiguous and width == len(code) and lookup_by in (["bank_code"], ["bank_code", "branch_code"]):
                bban = list(regmodel.conforming_bban(rng, sp["bban_spec"]))
                off = 0
                for c in lookup_by:
                    a, b = sp["positions"][c]
                    bban[a:b] = code[off:off + (b - a)]
                    off += b - a
                bban = "".join(bban)
                if regmodel.structure_regex(sp["bban_spec"]).fullmatch(bban):
                    try:
                        bank = IBAN.from_bban(cc, bban).bank
                    except Exception as e:  # noqa: BLE001
                        bank = f"<{type(e).__name__}: {e}>"
                    if bank != entries[0]:
                        res["violation"] = viol("e2e-bank-lookup", f"IBAN {cc}..{bban}.bank should be the first effective entry {entries[0]}, got {bank}")
                        return res
                    res["probes"]["bank_lookup_through_iban"] = res["probes"].get("bank_lookup_through_iban", 0) + 1
    try:
        BIC.candidates_from_bank_code("ZZ", "nope")
        res["violation"] = viol("e2e-candidates", "candidates_from_bank_code for an unlisted key did not raise")
        return res
    except exceptions.InvalidBankCode:
        pass
    except Exception as e:  # noqa: BLE001
        res["violation"] = viol("e2e-candidates", f"candidates_from_bank_code for an unlisted key raised {type(e).__name__}")
        return res
    bics = sorted(by_bic)
    rng.shuffle(bics)
    for b in bics[:15]:
        exp = sorted({e["bank_code"] for e in by_bic[b]})
        try:
            got = BIC(b).domestic_bank_codes
        except Exception as e:  # noqa: BLE001
            got = f"<{type(e).__name__}: {e}>"
        if got != exp:
            res["violation"] = viol("e2e-domestic-codes", f"BIC({b!r}).domestic_bank_codes should be {exp}, got {got}")
            return res
        names_exp = sorted({e["name"] for e in by_bic[b]})
        if BIC(b).bank_names != names_exp:
            res["violation"] = viol("e2e-domestic-codes", f"BIC({b!r}).bank_names should be {names_exp}, got {BIC(b).bank_names}")
            return res
    return res


# ---------------------------------------------------------------------------------------------
# dispatch, worker, probes
# ---------------------------------------------------------------------------------------------


CHILD = {"module": run_module_child, "fault": run_fault_child, "e2e": run_e2e_child, "e2efault": run_e2e_child}


def execute_config(cfg: dict) -> dict:
    return isolate.fork_call(CHILD[cfg["mode"]], (cfg,), timeout=120)


def config_probes(cfg: dict) -> dict:
    p: dict = {}
    names = regmodel.json_names(cfg["fs"]["iban_registry"])
    docs = [json.loads(cfg["fs"]["iban_registry"][n]) for n in names]
    paths = [dict(regmodel.leaf_paths(d)) for d in docs]
    allp: dict = {}
    for i, pd in enumerate(paths):
        for path in pd:
            allp.setdefault(path, []).append(i)
    conflicts = [path for path, owners in allp.items() if len(owners) >= 2]
    p["conflicting_key"] = bool(conflicts)
    p["three_way_conflict"] = any(len(o) >= 3 for o in allp.values())
    p["depth4_merge"] = any(len(path) >= 4 for path in conflicts)
    dvs = False
    for i in range(len(docs)):
        for j in range(i + 1, len(docs)):
            for path in paths[i]:
                for q in paths[j]:
                    if path != q and (path[:len(q)] == q or q[:len(path)] == path) and path and q:
                        dvs = True
    p["dict_vs_scalar_conflict"] = dvs
    order = [n for n in cfg["fs"]["order"]["iban_registry"] if n.endswith(".json")]
    border = [n for n in cfg["fs"]["order"]["bank_registry"] if n.endswith(".json")]
    p["listing_order_differs_from_sorted"] = order != sorted(order) or border != sorted(border)
    p["distractor_present"] = any(not n.endswith(".json") for d in ("iban_registry", "bank_registry") for n in cfg["fs"][d])
    bn = regmodel.json_names(cfg["fs"]["bank_registry"])
    v2 = [i for i, n in enumerate(bn) if n.endswith(".v2.json")]
    p["v2_first"] = bool(v2) and v2[0] == 0 and len(bn) > 1
    p["v2_last"] = bool(v2) and v2[-1] == len(bn) - 1 and len(bn) > 1
    p["v2_middle"] = any(0 < i < len(bn) - 1 for i in v2)
    bank = regmodel.ref_bank(cfg["fs"]["bank_registry"])
    seen: dict = {}
    for n in bn:
        doc = json.loads(cfg["fs"]["bank_registry"][n])
        for e in (regmodel.expand_v2(doc) if n.endswith(".v2.json") else doc):
            seen.setdefault((e["country_code"], e["bank_code"]), set()).add(n)
    p["duplicate_key_across_files"] = any(len(v) > 1 for v in seen.values())
    p["non_ascii_name"] = any(not e["name"].isascii() for e in bank)
    p["multi_file"] = len(names) >= 2
    return p


def worker_task(task: dict) -> dict:
    isolate.worker_guard()
    vseed, mode = task["vseed"], task["mode"]
    st = {"runs": 0, "mode": mode, "violations": [], "violation_count": 0, "probes": {}, "nontrivial": set(),
          "distinct": set(), "faults": {}, "fault_raised": {}, "samples": [], "digests": [], "fs_events": 0, "locales": {}}

    def probe(name, n=1):
        st["probes"][name] = st["probes"].get(name, 0) + n

    for i in task["indices"]:
        if runner.past(task.get("deadline")):
            st["probes"]["tasks_cut_short_by_wall_clock_cap"] = 1
            break
        cfg = gen_config(i, vseed, mode)
        res = execute_config(cfg)
        st["runs"] += 1
        st["fs_events"] += res.get("fs_events", 0)
        st["locales"][cfg["fs"]["locale"]] = st["locales"].get(cfg["fs"]["locale"], 0) + 1
        cp = config_probes(cfg)
        for k, v in cp.items():
            if v:
                probe(k)
        for k, v in res["probes"].items():
            probe(k, v)
        h = int(core.jhash([cfg["fs"]["iban_registry"], cfg["fs"]["bank_registry"]])[:15], 16)
        st["distinct"].add(h)
        if cp["multi_file"] and cp["conflicting_key"] and cp["listing_order_differs_from_sorted"]:
            st["nontrivial"].add(h)
        if mode in ("fault", "e2efault"):
            f = cfg["fs"]["faults"][0]
            if res["fired"]:
                key = f"{res['fired']}@{f['position']}"
                st["faults"][key] = st["faults"].get(key, 0) + 1
                probe("heal_after_fault_load")
            if res["raised"]:
                st["fault_raised"][res["raised"]] = st["fault_raised"].get(res["raised"], 0) + 1
        if task.get("digests"):
            st["digests"].append([cfg["run_index"], core.jhash([res.get("digest"), res["violation"] and res["violation"]["signature"]])])
        if res["violation"] is not None:
            st["violation_count"] += 1
            if len(st["violations"]) < 3:
                v = dict(cfg)
                v["violation"] = res["violation"]
                st["violations"].append(v)
        elif len(st["samples"]) < 1 and cp["multi_file"] and cp["conflicting_key"]:
            st["samples"].append({"run_index": cfg["run_index"], "mode": mode, "iban_registry": cfg["fs"]["iban_registry"],
                                  "bank_registry_files": sorted(cfg["fs"]["bank_registry"]), "order": cfg["fs"]["order"],
                                  "locale": cfg["fs"]["locale"], "faults": cfg["fs"]["faults"]})
    st["nontrivial"] = sorted(st["nontrivial"])
    st["distinct"] = sorted(st["distinct"])
    return st


# ---------------------------------------------------------------------------------------------
# fresh interpreters under another hash seed (sampled)
# ---------------------------------------------------------------------------------------------


def eval_config_mode(path: str) -> int:
    with open(path, encoding="utf-8") as fp:
        cfg = json.load(fp)
    res = CHILD[cfg["mode"]](cfg)
    print("RESULT " + core.jdump({"digest": res.get("digest"), "violation": res["violation"]}))
    return 0


def fresh_eval(cfg: dict, hashseed: str) -> dict:
    with tempfile.NamedTemporaryFile("w", suffix=".json", prefix="c18cfg", delete=False) as fp:
        json.dump(cfg, fp)
        path = fp.name
    try:
        r = isolate.fresh_python([SCRIPT, "--eval-config", path], hashseed=hashseed, timeout=300)
    finally:
        os.unlink(path)
    if r.returncode != 0:
        raise core.HarnessError(f"fresh interpreter (hashseed {hashseed}) failed: {r.stderr.decode()[-1500:]}")
    line = [ln for ln in r.stdout.decode().splitlines() if ln.startswith("RESULT ")][-1]
    return json.loads(line[len("RESULT "):])


def _fresh_task(item):
    mode, index, vseed, hashseed = item
    cfg = gen_config(index, vseed, mode)
    here = execute_config(cfg)
    there = fresh_eval(cfg, hashseed)
    v = None
    if there["violation"] is not None and here["violation"] is None:
        v = dict(there["violation"])
        v["signature"] = dict(v["signature"], hashseed_only=True)
        v["hashseed"] = hashseed
    elif here["violation"] is None and there["digest"] != here.get("digest"):
        v = viol("hashseed-dependence", f"effective data differ under PYTHONHASHSEED={hashseed}")
        v["hashseed"] = hashseed
    if v is not None:
        c = dict(cfg)
        c["violation"] = v
        return c
    return None


# ---------------------------------------------------------------------------------------------
# confirm / minimise / replay
# ---------------------------------------------------------------------------------------------


def confirm(rec: dict) -> dict | None:
    cfg = {k: v for k, v in rec.items() if k != "violation"}
    hs = rec["violation"].get("hashseed")
    if hs:
        there = fresh_eval(cfg, hs)
        here = execute_config(cfg)
        if there["violation"] is not None and here["violation"] is None:
            v = dict(there["violation"])
            v["signature"] = dict(v["signature"], hashseed_only=True)
        elif here["violation"] is None and there["digest"] != here.get("digest"):
            v = viol("hashseed-dependence", f"effective data differ under PYTHONHASHSEED={hs}")
        else:
            return None
        v["hashseed"] = hs
    else:
        v = execute_config(cfg)["violation"]
    if v is None:
        return None
    out = json.loads(json.dumps(cfg))
    out["violation"] = v
    return out


def minimise(rec: dict) -> dict:
    want = report.class_key(rec)
    best = rec
    budget = 250
    orig = {"iban_files": len(rec["fs"]["iban_registry"]), "bank_files": len(rec["fs"]["bank_registry"]),
            "bytes": sum(len(c) for d in ("iban_registry", "bank_registry") for c in rec["fs"][d].values())}

    def attempt(c) -> bool:
        nonlocal best, budget
        if budget <= 0:
            return False
        budget -= 1
        try:
            got = confirm(c)
        except core.HarnessError:
            return False
        if got is not None and report.class_key(got) == want:
            best = got
            return True
        return False

    def clone():
        return json.loads(json.dumps(best))

    if best.get("alt_orders"):
        c = clone()
        c["alt_orders"] = []
        attempt(c)
    if best["fs"]["locale"] != "utf-8":
        c = clone()
        c["fs"]["locale"] = "utf-8"
        attempt(c)
    for d in ("iban_registry", "bank_registry"):
        changed = True
        while changed:
            changed = False
            for n in sorted(best["fs"][d]):
                if len(regmodel.json_names(best["fs"][d])) <= 1 and n.endswith(".json"):
                    continue
                if any(f["dir"] == d and f["file"] == n for f in best["fs"]["faults"]):
                    continue
                c = clone()
                del c["fs"][d][n]
                c["fs"]["order"][d] = [x for x in c["fs"]["order"][d] if x != n]
                if attempt(c):
                    changed = True
                    break
    # shrink documents: drop top-level keys / list entries
    for d in ("iban_registry", "bank_registry"):
        for n in sorted(best["fs"][d]):
            if not n.endswith(".json"):
                continue
            changed = True
            while changed and budget > 0:
                changed = False
                doc = json.loads(best["fs"][d][n])
                items = list(doc) if isinstance(doc, dict) and "entries" not in doc else \
                    list(range(len(doc["entries"]))) if isinstance(doc, dict) else list(range(len(doc)))
                for it in items:
                    c = clone()
                    dd = json.loads(c["fs"][d][n])
                    if isinstance(dd, dict) and "entries" in dd:
                        del dd["entries"][it]
                    else:
                        del dd[it]
                    c["fs"][d][n] = json.dumps(dd, ensure_ascii=False)
                    if attempt(c):
                        changed = True
                        break
    # sorted listing order if it does not matter
    c = clone()
    for d in ("iban_registry", "bank_registry"):
        c["fs"]["order"][d] = sorted(c["fs"]["order"][d])
    attempt(c)
    best["minimised_from"] = orig
    best["minimised_to"] = {"iban_files": len(best["fs"]["iban_registry"]), "bank_files": len(best["fs"]["bank_registry"]),
                            "bytes": sum(len(c) for d in ("iban_registry", "bank_registry") for c in best["fs"][d].values())}
    return best


def replay(path: str) -> int:
    with open(path, encoding="utf-8") as fp:
        rec = json.load(fp)
    runner.bootstrap(import_package=False)
    want = report.class_key(rec)
    got = confirm(rec)
    print(f"replay {path}: tree={core.src_dir()} mode={rec['mode']}")
    if got is not None and report.class_key(got) == want:
        print(f"REPRODUCED property={PROP} class={want}")
        print("  " + got["violation"]["detail"])
        print(f"VIOLATION property={PROP} replay={path}")
        return core.EXIT_VIOLATION
    print(f"NOT REPRODUCED property={PROP} (violation now: {got and got['violation']['signature']})")
    return core.EXIT_OK


# ---------------------------------------------------------------------------------------------
# main
# ---------------------------------------------------------------------------------------------


def main() -> int:
    ap = argparse.ArgumentParser()
    ap.add_argument("--tier", default=os.environ.get("VERIF_TIER", "quick"), choices=["quick", "thorough"])
    ap.add_argument("--replay")
    ap.add_argument("--eval-config")
    ap.add_argument("--runs", type=int, nargs=4, metavar=("MODULE", "E2E", "FAULT", "E2EFAULT"))
    ap.add_argument("--fresh", type=int)
    ap.add_argument("--digests", action="store_true")
    ap.add_argument("--no-evidence", action="store_true")
    args = ap.parse_args()
    if args.eval_config:
        import warnings

        warnings.simplefilter("ignore")
        return eval_config_mode(args.eval_config)
    if args.replay:
        return replay(args.replay)

    timer = runner.Timer()
    runner.bootstrap(import_package=False)
    registry_code()
    vseed = core.verif_seed()
    print(f"VERIF_SEED={vseed} property={PROP} tier={args.tier} tree={core.src_dir()} workers={core.workers()}")
    counts = args.runs or ([12000, 1500, 2400, 900] if args.tier == "quick" else [600_000, 40_000, 100_000, 20_000])
    nfresh = args.fresh if args.fresh is not None else (12 if args.tier == "quick" else 96)
    tasks = []
    deadline = runner.wall_cap(args.tier)
    for mode, n in zip(("module", "e2e", "fault", "e2efault"), counts):
        size = 100 if not mode.startswith("e2e") else 10
        for ch in runner.chunks(list(range(n)), size):
            tasks.append({"mode": mode, "indices": ch, "vseed": vseed, "digests": args.digests, "deadline": deadline})
    wp = isolate.Pool(core.workers())
    agg = {"module": 0, "e2e": 0, "fault": 0, "e2efault": 0, "violation_count": 0, "fs_events": 0}
    probes: dict = {}
    faults: dict = {}
    fault_raised: dict = {}
    locales: dict = {}
    nontrivial, distinct = set(), set()
    violations: list = []
    samples: list = []
    digests: list = []
    fresh_checked = 0
    limit = max(7000 if args.tier == "thorough" else 1500, (deadline - __import__("time").time()) + 900)
    try:
        fresh_items = []
        for k in range(nfresh):
            mode = "e2e" if k % 2 == 0 else "module"
            n = counts[1] if mode == "e2e" else counts[0]
            if n:
                fresh_items.append((mode, (k * 7919) % n, vseed, ["1", "4242", "31337"][k % 3]))
        fresh_futs = [wp.ex.submit(_fresh_task, it) for it in fresh_items]
        for task, st in wp.map_unordered(worker_task, tasks, timeout=limit):
            agg[st["mode"]] += st["runs"]
            agg["violation_count"] += st["violation_count"]
            agg["fs_events"] += st["fs_events"]
            for src, dst in ((st["probes"], probes), (st["faults"], faults), (st["fault_raised"], fault_raised),
                             (st["locales"], locales)):
                for k, v in src.items():
                    dst[k] = dst.get(k, 0) + v
            nontrivial.update(st["nontrivial"])
            distinct.update(st["distinct"])
            violations.extend(st["violations"])
            if len(samples) < 3:
                samples.extend(st["samples"])
            digests.extend(st["digests"])
        print(f"exploration finished after {timer.elapsed():.1f}s; violations_seen={agg['violation_count']}")
        sys.stdout.flush()
        for fut in fresh_futs:
            v = fut.result(timeout=limit)
            fresh_checked += 1
            if v is not None:
                agg["violation_count"] += 1
                violations.append(v)
    finally:
        wp.close()
    if args.digests:
        for idx, d in sorted(digests):
            print(f"DIGEST {idx} {d}")
    violations.sort(key=lambda r: str(r["run_index"]))
    unlisted = report.process(PROP, violations, confirm, minimise, SCRIPT)
    wall = timer.elapsed()
    for name in ("three_way_conflict", "dict_vs_scalar_conflict", "depth4_merge", "v2_first", "v2_middle", "v2_last",
                 "duplicate_key_across_files", "non_ascii_name", "distractor_present", "heal_after_fault_load",
                 "overlay_law_checked", "merge_dicts_direct", "superseded_structure_probed", "bank_lookup_through_iban"):
        probes.setdefault(name, 0)
        if probes[name] == 0:
            print(f"warning: probe {name} never fired")
    total = agg["module"] + agg["e2e"] + agg["fault"] + agg["e2efault"]
    cov = {
        "evaluations": total + fresh_checked,
        "distinct_nontrivial": len(nontrivial),
        "rule": "one evaluation = one generated registry configuration (1-5 IBAN registry files, 1-5 bank registry files incl. "
                "v2 files, distractors, a PRNG-chosen directory listing order, a simulated locale and in the fault "
                "configuration one read fault) loaded through the simulated storage; distinct = sha256 of file names and "
                "contents; non-trivial = at least two IBAN registry files with at least one conflicting key and a listing "
                "order different from sorted order",
        "samples": samples[:3] or [{"note": "no multi-file sample"}],
        "distinct_configurations": len(distinct),
        "module_level_runs": agg["module"], "end_to_end_runs": agg["e2e"], "fault_runs": agg["fault"],
        "end_to_end_import_under_fault_then_retry_runs": agg["e2efault"],
        "fresh_interpreter_runs_other_hashseed": fresh_checked,
        "fs_events": agg["fs_events"],
        "runs_per_hour": int((total + fresh_checked) / wall * 3600) if wall > 0 else 0,
        "seeds": {"verif_seed": vseed, "derivation": "sha256(f'{VERIF_SEED}:C18-<mode>:{i}')[:16]",
                  "module_indices": [0, counts[0] - 1], "e2e_indices": [0, counts[1] - 1], "fault_indices": [0, counts[2] - 1],
                  "e2efault_indices": [0, counts[3] - 1]},
        "simulated_time": "n/a (library has no clock; logical steps only)",
        "faults_fired": dict(sorted(faults.items())),
        "exceptions_raised_by_faulted_loads": fault_raised,
        "simulated_locales": locales,
        "probes": probes,
        "components": {"real": ["schwifty/registry.py (isolated instance of its source in module-level and fault runs)",
                                "whole schwifty package, pycountry, rstr, re, json (end-to-end runs)"],
                       "stub": ["bundled registries (generated in memory)", "file system under *_registry/ (SimPath: listing order, "
                                "read faults, locale default encoding)", "importlib.resources.files for the package under test"]},
        "violations_seen": agg["violation_count"],
        "tree_sha256": core.tree_digest(),
    }
    if not args.no_evidence:
        evidence.write(PROP, args.tier, vseed, cov, wall, unlisted, [
            "file names over [a-z0-9_] plus '-', inner dots and (4 %) a leading dot, '.v2.json' for v2 files; 'file-name order' = code-point order of the whole name (what sorting Path objects gives); non-v2 stems never end in 'v2'",
            "no document contains a 'regex' key, no directory is empty, no file mixes list and dict",
            "under read faults only returned data is judged and only corruptions every loader can detect are injected",
            "a loader that reaches storage by a route the stub does not serve is HARNESS-ERROR, not a verdict",
            "sampling, not enumeration",
        ], level="fault_enumeration")
    print(f"C18 {args.tier}: module={agg['module']} e2e={agg['e2e']} fault={agg['fault']} e2efault={agg['e2efault']} fresh={fresh_checked} "
          f"distinct={len(distinct)} nontrivial={len(nontrivial)} faults_fired={sum(faults.values())} "
          f"violations_seen={agg['violation_count']} unlisted_classes={unlisted} wall={wall:.1f}s")
    if unlisted:
        return core.EXIT_VIOLATION
    if probes.get("tasks_cut_short_by_wall_clock_cap"):
        raise core.HarnessError("incomplete exploration: the wall-clock safety cap cut tasks short; a truncated run is "
                                "never reported as a pass (raise VERIF_WALL_CAP or lower --runs)")
    return core.EXIT_OK


if __name__ == "__main__":
    core.main_wrapper(main)
