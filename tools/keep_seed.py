#!/venv/bin/python
"""Keep a confirmed seeded change under /verif/seeded/<id>/ (patch.diff, demo.py, meta.json)."""
import json, os, shutil, sys
wt, k, sid, prop, caught_by, ran = sys.argv[1:7]
src = f"/tmp/wt/{wt}/_seed/{k}"
dst = f"/verif/seeded/{sid}"
os.makedirs(dst, exist_ok=True)
shutil.copy(f"{src}/patch.diff", f"{dst}/patch.diff")
shutil.copy(f"{src}/demo.py", f"{dst}/demo.py")
meta = json.load(open(f"{src}/meta.json"))
meta["property"] = prop
meta["origin"] = f"independent sub-agent given only the text of {meta.get('property', prop)} and scratch worktree /tmp/wt/{wt} (removed afterwards); demo.py refers to that path"
meta["confirmed"] = {
    "suite_with_change": "362 passed, 2 failed (baseline: the two pydantic tests fail without pydantic)",
    "demo_with_change": "fails (exit 1)", "demo_without_change": "passes (exit 0)",
    "how": "tools/eval_seed.sh <worktree> <seed dir> <PROP>: git apply in the scratch worktree, pytest, demo, quick check with SCHWIFTY_SRC=<worktree>, git checkout",
}
meta["caught_by"] = json.loads(caught_by)
meta["ran"] = ran
json.dump(meta, open(f"{dst}/meta.json", "w"), indent=1)
print("kept", dst)
