#!/bin/bash
# Evaluate a seeded change in a scratch worktree of /repo (never in /repo itself):
#   tools/eval_seed.sh <worktree> <seed_dir containing patch.diff + demo.py> <PROP> [check args...]
# 1. suite still passes with the change  2. demo fails with / passes without  3. our quick check flags it
set -u
WT=$1; SEED=$2; PROP=$3; shift 3
lower=$(echo "$PROP" | tr A-Z a-z)
cd "$WT" || exit 2
git checkout -q -- . && git clean -fdq -e _seed
echo "--- demo on unchanged tree"
timeout 300 /venv/bin/python "$SEED/demo.py" > /tmp/eval_demo_clean.out 2>&1; rc_clean=$?
tail -2 /tmp/eval_demo_clean.out
git apply "$SEED/patch.diff" || { echo "PATCH DOES NOT APPLY"; exit 2; }
echo "--- suite with change"
timeout 900 /venv/bin/python -m pytest -q -p no:cacheprovider 2>&1 | tail -2
echo "--- demo with change"
timeout 300 /venv/bin/python "$SEED/demo.py" > /tmp/eval_demo_mut.out 2>&1; rc_mut=$?
tail -2 /tmp/eval_demo_mut.out
echo "--- check $PROP with change"
( cd /verif && SCHWIFTY_SRC="$WT" timeout 1800 /venv/bin/python checks/$lower.py --tier quick --no-evidence "$@" > /tmp/eval_check.out 2>&1 ); rc_check=$?
grep -E "VIOLATION|HARNESS|^  class|^C1" /tmp/eval_check.out | head -8 | cut -c1-600
git checkout -q -- . && git clean -fdq -e _seed
echo "RESULT demo_clean_rc=$rc_clean demo_mut_rc=$rc_mut check_rc=$rc_check"
